"""C38 - cqlengine routing keys equal the partition key Cassandra hashes."""
import itertools
import os
import struct
from collections import OrderedDict
from pyvc.engine import harness
from pyvc.interp import get_attr, PyExc

LEVEL = 'other'
TRUSTED = ['ModelMetaClass.__new__ is outside the translatable subset (dynamic class construction): only its `if attrs.get(\'__compute_routing_key__\', True): ...` statement - the one that builds '
           '_partition_key_index and the key serializer - is extracted mechanically (vc.exec_slice by source pattern) and executed on stub columns; everything else of the metaclass is dropped and '
           'exercised only by the bounded stand-in on real models',
           'column codecs are abstract in the deductive part (to_binary returns a tagged token); packing of the serialized parts into the routing key is C30 (Statement._set_routing_key)',
           'shapes are enumerated: 1..3 partition-key columns interleaved with 0..2 clustering columns in every declaration order of up to 4 key columns, filters in every order, with / without a missing component']
EXPLANATION = 'postconditions on the extracted key-serializer statement of ModelMetaClass.__new__, BaseCQLStatement / AssignmentStatement.partition_key_values and cqlengine.query._execute_statement; bounded comparison of real models\' routing keys with the composite encoding of the core-serialized key values'

TIER = os.environ.get('VERIF_TIER', 'quick')


class _CqlType(object):
    def __init__(self, name):
        self.name = name

    def to_binary(self, p, pv):
        return ('binary', self.name, p, pv)


class _KeyCol(object):
    def __init__(self, name, partition_key, pk_index):
        self.db_field_name, self.partition_key, self._partition_key_index = 'db_' + name, partition_key, pk_index
        self.cql_type = _CqlType('type_of_' + name)


def _declarations():
    """key-column declaration orders: 'P' partition-key column, 'C' clustering column"""
    out = []
    for n in (1, 2, 3, 4):
        for pat in itertools.product('PC', repeat=n):
            if 'P' in pat and pat.count('P') <= 3:
                out.append(''.join(pat))
    return out if TIER != 'quick' else [p for p in out if len(p) <= 3] + ['PCPC', 'CPCP', 'CCPP']


@harness('C38', 'key-serializer', functions=['cassandra.cqlengine.models.ModelMetaClass.__new__', 'cassandra.cqlengine.models.BaseModel._routing_key_from_values'], native='contracts.native.c38:replay')
def key_serializer(vc):
    """for every declaration order of partition-key (P) and clustering (C) columns: ensures _partition_key_index maps each partition-key column's db name to its position AMONG THE PARTITION-KEY
    COLUMNS, and the key serializer encodes the i-th given value with the CQL type of the i-th PARTITION-KEY column (declaration order), never with a clustering column's type"""
    decl = vc.choice('declaration_order', _declarations())
    primary, pki = OrderedDict(), 0
    for i, kind in enumerate(decl):
        col = _KeyCol('k%d' % i, kind == 'P', pki if kind == 'P' else None)
        pki += kind == 'P'
        primary['k%d' % i] = col
    partition = OrderedDict(k for k in primary.items() if k[1].partition_key)
    # the statement is found by what it decides on (the model's __compute_routing_key__ switch, tested either way round), and the two locals it leaves behind
    # by where __new__ publishes them (attrs['_partition_key_index'] = <name>, attrs['_key_serializer'] = <name>): renames and a flipped if/else do not matter
    import inspect
    import re as _re
    from cassandra.cqlengine.models import ModelMetaClass
    src = inspect.getsource(ModelMetaClass.__new__)
    name_of = lambda key, default: (_re.search(r"attrs\['%s'\]\s*=\s*([A-Za-z_]\w*)\s*$" % key, src, _re.M) or [None, default])[1]
    idx_name, ser_name = name_of('_partition_key_index', 'partition_key_index'), name_of('_key_serializer', 'key_serializer')
    loc = vc.exec_slice('cassandra.cqlengine.models.ModelMetaClass.__new__', r"^if (not )?attrs\.get\('__compute_routing_key__', True\)",
                        {'attrs': {}, 'partition_keys': partition, 'primary_keys': primary, 'clustering_keys': OrderedDict(k for k in primary.items() if not k[1].partition_key)})
    idx, ser = loc.get(idx_name), loc.get(ser_name)
    pcols = list(partition.values())
    vc.check('index/position-among-the-partition-key-columns', idx == {c.db_field_name: i for i, c in enumerate(pcols)})
    parts = ['value%d' % i for i in range(len(pcols))]
    fn = getattr(ser, '__func__', ser)
    got = vc.call(fn, list(parts), 4)
    vc.check('serializer/each-value-encoded-with-its-own-partition-key-column-type', list(got) == [('binary', c.cql_type.name, p, 4) for c, p in zip(pcols, parts)])
    if decl == 'CP':
        vc.must_fail('selfcheck/encoded-with-the-first-declared-key-column-type', list(got) == [('binary', 'type_of_k0', 'value0', 4)])


@harness('C38', 'partition_key_values', functions=['cassandra.cqlengine.statements.BaseCQLStatement.partition_key_values', 'cassandra.cqlengine.statements.BaseCQLStatement._update_part_key_values',
                                                   'cassandra.cqlengine.statements.AssignmentStatement.partition_key_values'], native='contracts.native.c38:replay')
def partition_key_values(vc):
    """for a 2-component partition key and filters / assignments given in any order, with equality or other operators, complete or not: ensures the values come back in PARTITION-KEY order
    (not filter order), a component that is not fixed by an equality filter (or an INSERT/UPDATE assignment) is None"""
    from cassandra.cqlengine import statements as st
    from cassandra.cqlengine import operators as ops
    index = {'a': 0, 'b': 1}
    order = vc.choice('filter_order', [('a', 'b'), ('b', 'a'), ('b', 'v', 'a'), ('a',), ('b',), ()])
    op_b = vc.choice('operator_on_b', ['=', '>', 'IN'])
    kind = vc.choice('statement', ['SELECT', 'UPDATE-where', 'INSERT-assignments', 'DELETE'])
    val = {'a': 'VA', 'b': 'VB', 'v': 'VV'}
    mk_op = lambda f: ops.EqualsOperator() if f != 'b' or op_b == '=' else (ops.GreaterThanOperator() if op_b == '>' else ops.InOperator())
    where = [st.WhereClause(f, mk_op(f), val[f] if not (f == 'b' and op_b == 'IN') else [val[f]]) for f in order]
    if kind == 'SELECT':
        s = st.SelectStatement('t', where=where)
    elif kind == 'UPDATE-where':
        s = st.UpdateStatement('t', assignments=[st.AssignmentClause('v', 1)], where=where)
    elif kind == 'DELETE':
        s = st.DeleteStatement('t', where=where)
    else:
        s = st.InsertStatement('t', assignments=[st.AssignmentClause(f, val[f]) for f in order] or [st.AssignmentClause('v', 1)])
        op_b = '='
    got = vc.call('cassandra.cqlengine.statements.%s.partition_key_values' % ('AssignmentStatement' if kind in ('UPDATE-where', 'INSERT-assignments') else 'BaseCQLStatement'), s, index)
    want = ['VA' if 'a' in order else None, 'VB' if ('b' in order and op_b == '=') else None]
    vc.check('values/in-partition-key-order-None-when-not-fixed', list(got) == want)


@harness('C38', '_execute_statement', functions=['cassandra.cqlengine.query._execute_statement'], native='contracts.native.c38:replay')
def execute_statement(vc):
    """ensures the statement handed to the session carries routing_key == the model's serialization of the partition-key values (packed by Statement._set_routing_key, C30) and the model's
    keyspace exactly when every component is fixed; otherwise no routing key; the bound parameters are the statement's context"""
    import cassandra.cqlengine.query as Q
    from cassandra.query import SimpleStatement
    fixed = vc.choice('partition_key', ['complete-1', 'complete-2', 'complete-2-with-falsy-values', 'missing-component', 'model-without-routing'])
    sent = {}

    class Stmt(object):
        fetch_size = 100

        def get_context(self):
            return {'0': 'p0'}

        def __str__(self):
            return 'SELECT ...'

        def partition_key_values(self, index):
            sent['index'] = index
            return {'complete-1': ['A'], 'complete-2': ['A', 'B'], 'complete-2-with-falsy-values': [0, ''], 'missing-component': ['A', None], 'model-without-routing': []}[fixed]

    class Model(object):
        _partition_key_index = {} if fixed == 'model-without-routing' else ({'a': 0} if fixed == 'complete-1' else {'a': 0, 'b': 1})

        @classmethod
        def _routing_key_from_values(cls, values, pv):
            sent['serialized'] = (list(values), pv)
            return [b'\x00\x01' if v == 'A' else b'\x02' for v in values]

        @classmethod
        def _get_keyspace(cls):
            return 'model_ks'

        @classmethod
        def _get_connection(cls):
            return 'CONNECTION'

    class Cluster(object):
        protocol_version = 4

    class Conn(object):
        @staticmethod
        def get_cluster(c=None):
            return Cluster

        @staticmethod
        def execute(s, params, timeout=None, connection=None):
            sent['stmt'], sent['params'], sent['connection'] = s, params, connection
            return 'ROWS'
    old = Q.conn
    Q.conn = Conn
    try:
        r = vc.call('cassandra.cqlengine.query._execute_statement', Model, Stmt(), 1, 5.0)
    finally:
        Q.conn = old
    s = sent.get('stmt')
    vc.check('post/executed-with-the-statement-context', r == 'ROWS' and sent.get('params') == {'0': 'p0'} and sent.get('connection') == 'CONNECTION' and s is not None)
    if s is None:
        return
    rk = get_attr(vc.ctx, s, 'routing_key') if not isinstance(s, SimpleStatement) else s.routing_key
    ks = get_attr(vc.ctx, s, 'keyspace') if not isinstance(s, SimpleStatement) else s.keyspace
    if fixed == 'complete-1':
        vc.check('routing-key/single-component-is-the-serialized-value', rk == b'\x00\x01' and ks == 'model_ks' and sent.get('serialized') == (['A'], 4))
    elif fixed == 'complete-2-with-falsy-values':
        vc.check('routing-key/falsy-key-values-are-values', rk == b'\x00\x01\x02\x00' * 2 and ks == 'model_ks' and sent.get('serialized') == ([0, ''], 4))
    elif fixed == 'complete-2':
        vc.check('routing-key/composite-of-the-serialized-values-in-key-order', rk == b'\x00\x02\x00\x01\x00' + b'\x00\x01\x02\x00' and ks == 'model_ks' and sent.get('serialized') == (['A', 'B'], 4))
    else:
        vc.check('routing-key/none-unless-the-whole-partition-key-is-fixed', rk is None and 'serialized' not in sent)


def real_models_routing_keys(tier, seed):
    from contracts.native import c38
    return c38.real_models(tier, seed)


BOUNDED = [real_models_routing_keys]


# _execute_statement hands the serialized key parts to SimpleStatement.routing_key, whose setter (Statement._set_routing_key / _key_parts_packed) packs them into
# Cassandra's composite encoding: that packing is C30's contract.  It is re-discharged here so that a change to it fails this property as well.
from contracts import c30_binding as _C30
_Q = 'cassandra.query.'
harness('C38', 'key-parts-packed-as-cassandra-composite', functions=[_Q + 'Statement._set_routing_key', _Q + 'Statement._key_parts_packed', _Q + 'BoundStatement.routing_key'],
        native='contracts.native.c30:replay')(_C30.routing_key)


# "Cassandra's encoding of that partition key for the model's key column types": the key serializer hands each key value to the core serializer of the column's
# CQL type, and the replica that owns the row is found from the hash of Cassandra's own (canonical) bytes - cqlengine sends the values as literals, the server
# encodes them itself.  A serializer that produces bytes that still decode to the same value but are not Cassandra's (a non-minimal varint, say) therefore
# mis-routes without any round trip noticing.  Byte-exactness of the serializers is C02's contract; it is re-discharged here for the types a key column can have
# whose encoding is not a fixed transcription of the value (integers of every width, varint - which decimal builds on -, boolean, date, time, timestamp).
from contracts import codec_common as _K
from contracts import varint_common as _V
for _c, _w, _s in _K.FIXED_INTS:
    _K.mk_fixed_int('C38', _c, _w, _s)
_K.mk_boolean('C38')
_K.mk_simpledate('C38')
_K.mk_time('C38')
_K.mk_timestamp('C38')
_V.mk_varint_pack('C38')
TRUSTED = list(TRUSTED) + list(_V.LEMMAS) + ['E-DATETIME, E-STRUCT as in C02 (contracts/c02_byteexact.py)', 'spec functions in spec/cser.py are the oracle for the key column encodings']
LEAN_LEMMAS = _V.LEAN_LEMMAS
