"""Shared harness parts for the pool properties (C12, C13, C20, C45): stub connections with ghost OPENED/CLOSED accounting."""
import z3
from pyvc import sym
from pyvc.interp import SObj, PyExc, make_exception, call_value, BoundMethod, resolve
from pyvc.libmodels import LockModel, _M

HC = 'cassandra.pool.HostConnection.'


class Cond(object):
    """threading.Condition over the pool lock (E-COND): a wait returns at an arbitrary later moment; no fairness assumed."""

    def __init__(self, lock=None, on_wait=None):
        self.lock = lock
        self.on_wait = on_wait
        self.notified = 0

    def __enter__(self):
        if self.lock is not None:
            from pyvc.engine import cur
            self.lock.enter(cur())
        return self

    def __exit__(self, *a):
        if self.lock is not None:
            from pyvc.engine import cur
            self.lock.exit(cur(), None)
        return False

    def wait(self, t=None):
        if self.on_wait:
            self.on_wait()

    def notify(self):
        self.notified += 1

    def notify_all(self):
        self.notified += 1


class Conn(object):
    """A connection as the pools see it (callee contracts of Connection.close / set_keyspace_*); ghost: closes, lock discipline."""

    def __init__(self, world, name, in_flight=0, orphans=(), threshold_reached=False):
        self.world, self.name = world, name
        self.lock = LockModel('connection.lock[%s]' % name)
        self.in_flight = in_flight
        self.orphaned_request_ids = set(orphans)
        self.orphaned_threshold_reached = threshold_reached
        self.is_closed = False
        self.is_defunct = False
        self.signaled_error = False
        self.last_error = None
        self.max_request_id = 100
        self.keyspace = None
        self.close_calls = []
        world.opened.append(self)

    def close(self):
        # record the state the caller saw when it decided to close
        self.close_calls.append(dict(lock_held=self.lock.depth > 0, in_flight=self.in_flight, orphans=len(self.orphaned_request_ids)))
        self.is_closed = True

    def set_keyspace_blocking(self, ks):
        self.keyspace = ks

    def get_request_id(self):
        return 1

    def __repr__(self):
        return '<conn %s>' % self.name


class World(object):
    def __init__(self, vc):
        self.vc = vc
        self.opened = []
        self.log = []
        self.factory_hook = None
        self.factory_fails = False

    def factory(self, endpoint, **kw):
        if self.factory_hook:
            self.factory_hook()
        if self.factory_fails:
            from cassandra.connection import ConnectionException
            raise PyExc(make_exception(self.vc.ctx, ConnectionException, ['refused'], {}))
        c = (getattr(self, 'conn_class', None) or Conn)(self, 'new%d' % len(self.opened))
        self.log.append(('open', c))
        return c


class Cluster(object):
    def __init__(self, world):
        self.world = world
        self.connect_to_remote_hosts = True

    def connection_factory(self, endpoint, *a, **kw):
        return self.world.factory(endpoint, **kw)

    def signal_connection_failure(self, host, exc, is_host_addition=False):
        self.world.log.append(('signal_connection_failure', host))
        return self.world.host_goes_down

    def on_down(self, host, is_host_addition=False):
        self.world.log.append(('on_down', host))


class Session(object):
    def __init__(self, world, keyspace=None):
        self.world = world
        self.cluster = Cluster(world)
        self.keyspace = keyspace

    def submit(self, fn, *a, **k):
        self.world.log.append(('submit', fn, a, k))


class HostObj(object):
    endpoint = 'ep'

    def __repr__(self):
        return '<host>'


def host_connection(vc, world, conn, trash=(), shutdown=False, replacing=False, keyspace=None):
    from cassandra.pool import HostConnection
    lock = LockModel('pool._lock')
    world.host_goes_down = False
    pool = vc.obj(HostConnection, host=HostObj(), host_distance=0, _session=Session(world, keyspace), _lock=lock,
                  _stream_available_condition=Cond(lock), _is_replacing=replacing, _trash=set(trash), _connection=conn,
                  is_shutdown=shutdown, _keyspace=keyspace, shutdown_on_error=False)
    return pool, lock
