"""C15 - requests with a timeout finish in bounded time.

Class invariant TIMER: timeout is not None and not completed  =>  a live (non-cancelled) timer exists whose callback is _on_timeout
or _on_speculative_execute and whose deadline is <= start + timeout (+ 3 x 0.01 s of _on_timeout's self-rescheduling).
Established by the constructor's _start_timer, re-established by _on_speculative_execute, _on_timeout and - for every later page,
with that page's own clock origin - by start_fetching_next_page.  Time is a ghost real; the reactor's timer service is assumed
(E-TIMER: a created timer's callback runs once at/after its delay unless cancelled).
"""
import time
import z3
from pyvc.engine import harness
from pyvc import sym
from pyvc.interp import SObj, PyExc, exc_class, BoundMethod
from pyvc.libmodels import PartialModel, _M
from contracts import rf_common as R

LEVEL = 'proof'
TRUSTED = ['E-TIMER: Connection.create_timer(delay, cb) runs cb once at/after `delay` unless cancelled (reactor timer accuracy is not verified)',
           'E-CLOCK: time.time() is an arbitrary non-decreasing real; A-REAL',
           'speculative execution plans are finite: next_execution() eventually returns a negative delay',
           'ranking argument (bounded chain of timers: speculative executions left, then _attempts <= 3) is a meta-argument over the discharged contracts']
EXPLANATION = 'postconditions "completed or re-armed with a deadline within the budget" on the real timer-handling methods, with a ghost clock'

RF = R.RF


class Spec(object):
    def __init__(self, delay):
        self.delay = delay

    def next_execution(self, host):
        return self.delay


def _fut(vc, plan=(), timeout='sym'):
    h1, h2 = R.Host('h1'), R.Host('h2')
    world = R.World(vc, [h1, h2])
    session = R.Session(world, 4)
    T = vc.real('timeout') if timeout == 'sym' else timeout
    if T is not None:
        vc.assume(T > 0)
    fut = R.make_future(vc, world, session, list(plan), timeout=T)
    now = vc.real('now')
    vc.assume(now >= fut.attrs['_start_time'])
    vc.stub(time.time, lambda: now)
    return fut, world, T, now, (h1, h2)


def _timers(world):
    return [e[1] for e in world.log if e[0] == 'timer' and not e[1].cancelled]


def _cb_name(cb):
    if isinstance(cb, PartialModel):
        return _cb_name(cb.func)
    return getattr(getattr(cb, 'func', cb), '__name__', '?')


@harness('C15', '_start_timer', functions=[RF + '_start_timer', RF + '_time_remaining'], native='contracts.native.c15:replay')
def start_timer(vc):
    """requires _timer is None; ensures with a finite timeout exactly one timer is armed: the next speculative execution if it is due
    strictly before the deadline, otherwise _on_timeout at exactly the remaining time; without a timeout only a speculative timer"""
    has_timeout = vc.choice('has_timeout', [True, False])
    fut, world, T, now, hosts = _fut(vc, timeout='sym' if has_timeout else None)
    sd = vc.real('speculative_delay')
    fut.attrs['_spec_execution_plan'] = Spec(sd)
    vc.call(RF + '_start_timer', fut)
    ts = _timers(world)
    remaining = None if T is None else fut.attrs['_start_time'] + T - now
    if T is not None:
        vc.check('post/exactly-one-timer', len(ts) == 1)
        if len(ts) == 1:
            t = ts[0]
            vc.check('post/timer-stored', fut.attrs['_timer'] is t)
            if _cb_name(t.cb) == '_on_speculative_execute':
                vc.check('spec/only-when-due-before-deadline', sym.and_(sd >= 0, sd < remaining, t.delay == sd))
            else:
                vc.check('timeout/callback-is-_on_timeout', _cb_name(t.cb) == '_on_timeout')
                vc.check('timeout/fires-at-the-deadline', t.delay == remaining)
                vc.check('timeout/only-when-no-earlier-speculation', sym.or_(sd < 0, sd >= remaining))
    else:
        vc.check('no-timeout/only-speculative-timers', all(_cb_name(t.cb) == '_on_speculative_execute' for t in ts) and len(ts) <= 1)
    if T is not None:
        vc.must_fail('selfcheck/always-speculative', len(ts) == 1 and _cb_name(ts[0].cb) == '_on_speculative_execute')


@harness('C15', '_on_timeout', functions=[RF + '_on_timeout'], native='contracts.native.c15:replay')
def on_timeout(vc):
    """ensures: completed with OperationTimedOut, or (no connection yet and fewer than 3 self-reschedules) re-armed 10 ms later with
    the attempt count increased by one - so at most 3 reschedules precede completion"""
    from cassandra import OperationTimedOut
    fut, world, T, now, (h1, h2) = _fut(vc)
    has_conn = vc.choice('has_connection', [False, True])
    attempts = vc.choice('attempts', [0, 1, 2, 3])
    if has_conn:
        conn = world.pools[h1].conn
        fut.attrs['_connection'] = conn
        fut.attrs['_req_id'] = 5
        fut.attrs['_current_host'] = h1
        if vc.choice('request_still_registered', [True, False]):
            conn._requests[5] = ('cb', None, None)
    vc.call(RF + '_on_timeout', fut, _attempts=attempts)
    comps = fut.ghost['completions']
    ts = _timers(world)
    if not has_conn and attempts < 3:
        vc.check('rearm/not-completed', comps == [])
        vc.check('rearm/one-timer-10ms', len(ts) == 1 and ts[0].delay == 0.01 and fut.attrs['_timer'] is ts[0])
        if len(ts) == 1:
            cb = ts[0].cb
            vc.check('rearm/attempt-count-increases', isinstance(cb, PartialModel) and _cb_name(cb) == '_on_timeout' and cb.keywords.get('_attempts') == attempts + 1)
    else:
        vc.check('done/completed-once-with-OperationTimedOut', len(comps) == 1 and comps[0][0] == 'exception' and issubclass(exc_class(comps[0][1]), OperationTimedOut))
        vc.check('done/no-new-timer', ts == [])


@harness('C15', '_on_speculative_execute', functions=[RF + '_on_speculative_execute', RF + '_start_timer'], native='contracts.native.c15:replay')
def on_spec(vc):
    """ensures after a speculative-execution timer fires on a pending request with a timeout: the request is completed, or a live
    timer is armed again whose deadline is within the request's deadline (or 10 ms when the first attempt is not yet sent)"""
    fut, world, T, now, (h1, h2) = _fut(vc, plan=[])
    fut.attrs['_current_host'] = h1
    sent_first = vc.choice('first_attempt_sent', [True, False])
    fut.attrs['attempted_hosts'] = [h1] if sent_first else []
    sd = vc.real('next_speculative_delay')
    fut.attrs['_spec_execution_plan'] = Spec(sd)
    fut.attrs['_connection'] = world.pools[h1].conn
    fut.attrs['_req_id'] = 5
    world.pools[h1].conn._requests[5] = ('cb', None, None)
    vc.call(RF + '_on_speculative_execute', fut)
    comps = fut.ghost['completions']
    ts = _timers(world)
    remaining = fut.attrs['_start_time'] + T - now
    vc.check('post/completed-or-armed', (len(comps) == 1 and ts == []) or (comps == [] and len(ts) == 1))
    if comps == [] and len(ts) == 1:
        vc.check('post/armed-within-deadline', sym.or_(ts[0].delay <= remaining, ts[0].delay == 0.01))
        vc.check('post/timer-stored', fut.attrs['_timer'] is ts[0])


@harness('C15', 'start_fetching_next_page', functions=[RF + 'start_fetching_next_page', RF + '_start_timer'], native='contracts.native.c15:replay')
def next_page(vc):
    """ensures every later page fetch is armed like a fresh request: one live timer whose deadline is `timeout` after the page
    fetch started (not after the first page started), even though the previous page's timer was only cancelled"""
    fut, world, T, now, (h1, h2) = _fut(vc)

    class LB(object):
        def make_query_plan(self, ks, q):
            return [h1]
    fut.attrs['_load_balancer'] = LB()
    fut.attrs['_spec_execution_plan'] = Spec(-1)
    fut.attrs['_paging_state'] = b'ps'
    fut.attrs['_final_result'] = 'PAGE-1'
    old = R.Timer(world.log, 1.0, None)
    old.cancelled = True                      # what _set_final_result -> _cancel_timer left behind after page 1
    fut.attrs['_timer'] = old
    vc.call(RF + 'start_fetching_next_page', fut)
    ts = _timers(world)
    vc.check('post/one-live-timer-for-the-page', len(ts) == 1 and _cb_name(ts[0].cb) == '_on_timeout' and fut.attrs['_timer'] is ts[0])
    if len(ts) == 1:
        vc.check('post/deadline-is-timeout-after-the-page-fetch-started', ts[0].delay == T)
    vc.check('post/request-sent', len(world.sends()) == 1)


@harness('C15', 'send_request-deadline', functions=[RF + 'send_request'], native='contracts.native.c15:replay')
def send_deadline(vc):
    """ensures that when the deadline passes while hosts are being tried (each borrow may block), the request is timed out instead of
    walking the rest of the plan"""
    from cassandra import OperationTimedOut
    fut, world, T, now, (h1, h2) = _fut(vc, plan=())
    from pyvc.interp import GenList
    world._borrow = {h1: 'busy', h2: 'ok'}
    fut.attrs['query_plan'] = GenList([h1, h2])
    fut.attrs['_connection'] = None
    vc.call(RF + 'send_request', fut)
    late = now - fut.attrs['_start_time'] > T
    comps = fut.ghost['completions']
    ts = _timers(world)
    if vc.ctx.branch(late.t):
        vc.check('late/no-further-host-tried', [e[1] for e in world.log if e[0] == 'borrow'] == [h1])
        vc.check('late/timed-out-or-rearmed', (len(comps) == 1 and issubclass(exc_class(comps[0][1]), OperationTimedOut)) or len(ts) == 1)
    else:
        vc.check('intime/next-host-tried', [e[1] for e in world.sends()] == [h2])


@harness('C15', 'borrow_connection-wait', functions=['cassandra.pool.HostConnection.borrow_connection'], native='contracts.native.c15:replay')
def borrow_wait(vc):
    """the wait for a free stream id inside ResponseFuture._query (borrow_connection(timeout)) on a connection whose ids are all in use and stay in use - the
    worst case for boundedness - cut at its loop with the invariant `readings of the clock never go back`: ensures every wait it performs is for a finite,
    non-negative time that ends no later than start + timeout (so no wait is entered after the deadline), and it gives up with NoConnectionsAvailable only at a
    clock reading past the deadline; ghost clock: advances by an arbitrary amount at each reading and by at most t during wait(t)"""
    import time
    from contracts import pool_common as P
    from cassandra.pool import NoConnectionsAvailable
    HC = P.HC
    w = P.World(vc)
    c = P.Conn(w, 'full')
    c.max_request_id = 100
    c.in_flight = 100
    pool, lock = P.host_connection(vc, w, c)
    T = vc.real('timeout')
    vc.assume(T >= 0)
    clock = {'now': vc.real('clock_at_entry'), 'readings': 0, 'start': None}
    waits = []

    def now():
        d = vc.ctx.fresh_real('elapsed', register=False)
        vc.ctx.assume((d >= 0).t, silent=True)
        clock['now'] = clock['now'] + d
        clock['readings'] += 1
        if clock['start'] is None:
            clock['start'] = clock['now']
        return clock['now']
    vc.stub(time.time, now)

    class Cond(P.Cond):
        def wait(self_, t=None):
            waits.append(t)
            vc.check('wait/finite-and-non-negative', t is not None and t >= 0)
            if t is not None:
                vc.check('wait/ends-by-the-deadline', clock['now'] + t <= clock['start'] + T)
                d = vc.ctx.fresh_real('waited', register=False)
                vc.ctx.assume(sym.and_(d >= 0, d <= t).t, silent=True)
                clock['now'] = clock['now'] + d
    pool.attrs['_stream_available_condition'] = Cond(lock)

    def inv(L):
        return [('clock-monotone', clock['now'] >= clock['start'])]

    def heap(ctx):
        # an arbitrary later moment of the same wait: the clock has moved on by an unknown amount
        d = ctx.fresh_real('loop_elapsed', register=False)
        ctx.assume((d >= 0).t, silent=True)
        clock['now'] = clock['start'] + d
    vc.loop(HC + 'borrow_connection', 0, invariant=inv, havoc={'conn': lambda ctx: c, 'remaining': lambda ctx: ctx.fresh_real('h_remaining', register=False), '__clock': heap})
    kind, r = vc.call_catch(HC + 'borrow_connection', pool, T)
    vc.check('gives-up/with-NoConnectionsAvailable', kind == 'exc' and issubclass(exc_class(r), NoConnectionsAvailable))
    vc.check('gives-up/only-past-the-deadline', clock['now'] > clock['start'] + T)
    vc.check('gives-up/stream-count-untouched', c.in_flight == 100)
