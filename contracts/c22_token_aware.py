"""C22 - token-aware plans put live local replicas first without losing hosts."""
import os
from pyvc.engine import harness
from pyvc import sym
from pyvc.interp import SObj, PyExc, exc_class, call_value, GenList
from pyvc.libmodels import LockModel, _M
from contracts.c21_lb_plans import H, plan_list

LEVEL = 'proof'
TRUSTED = ['callee contracts: the child policy (C21: plan without duplicates, arbitrary order and content; distance arbitrary per host) and Metadata.get_replicas '
           '(C26: a list of distinct hosts, arbitrary content and order) are arbitrary oracles enumerated over a universe of 4 hosts',
           'E-RANDOM: shuffle permutes the list in place (identity, reversal and a rotation are enumerated)',
           'host state is read once per decision (a host flipping between the two loops is outside the contract)',
           'bounded dimension: 4 hosts, up to 3 replicas, child plans of up to 4 hosts - hosts enter only through equality, is_up and distance']
EXPLANATION = 'postcondition plan == [live local replicas in replica order] ++ [rest of the child plan in child order] on the real TokenAwarePolicy.make_query_plan'

TA = 'cassandra.policies.TokenAwarePolicy.'
TIER = os.environ.get('VERIF_TIER', 'quick')


@harness('C22', 'make_query_plan', functions=[TA + 'make_query_plan'], native='contracts.native.c22:replay')
def plan(vc):
    """for every replica list (distinct hosts), child plan (no duplicates), per-host up state (up / down / unknown) and child distance,
    shuffle on/off: ensures plan == [r in replicas | r is up and LOCAL] (replica order, or the shuffled order) ++ [h in child plan
    not yielded before] (child order); no host repeated; no host of the child plan left out; without routing key / keyspace /
    statement the child plan is returned unchanged"""
    from cassandra.policies import TokenAwarePolicy, HostDistance
    U = [H('a1', 'dc1'), H('b2', 'dc1'), H('c3', 'dc1'), H('d4', 'dc2')]
    mode = vc.choice('statement', ['routed', 'no-routing-key', 'no-keyspace', 'no-statement'])
    options = [[], [1], [1, 2], [2, 1], [3, 1]] + ([[1, 2, 0], [3, 2, 1]] if TIER != 'quick' else [])
    replicas = [U[i] for i in (options[vc.choice('replicas', list(range(len(options))))] if mode == 'routed' else [1])]
    nrep = len(replicas)
    # hosts that are not replicas are always listed by the child; replicas may or may not be (stale views)
    child_plan = [h for h in U if h not in replicas or vc.choice('child_lists_' + h.name, [True, False])]
    if vc.choice('child_order', ['forward', 'reversed']) == 'reversed':
        child_plan.reverse()
    dist = {}
    for h in U:
        involved = h in replicas and mode == 'routed'
        h.is_up = vc.choice('is_up_' + h.name, [True, False, None]) if involved else True
        dopts = [HostDistance.LOCAL, HostDistance.REMOTE] + ([HostDistance.IGNORED] if involved and h is replicas[0] else [])
        dist[h] = vc.choice('distance_' + h.name, dopts) if involved else (HostDistance.LOCAL if h.datacenter == 'dc1' else HostDistance.REMOTE)
    child_plan = [h for h in child_plan if dist[h] != HostDistance.IGNORED]          # C21: a policy never plans a host it reports IGNORED
    calls = []

    class Child(object):
        def make_query_plan(self, keyspace=None, query=None):
            calls.append((keyspace, query))
            return list(child_plan)

        def distance(self, host):
            return dist[host]

    class Meta(object):
        def get_replicas(self, keyspace, key):
            calls.append(('get_replicas', keyspace, key))
            return list(replicas)
    shuffle_on = vc.choice('shuffle_replicas', [False, True]) if mode == 'routed' else False
    perm = vc.choice('shuffle_result', ['reversed', 'rotated']) if shuffle_on else 'identity'

    def shuffle(xs):
        if perm == 'reversed':
            xs.reverse()
        elif perm == 'rotated' and xs:
            xs.append(xs.pop(0))
    vc.stub('random.shuffle', shuffle)

    class Q(object):
        keyspace = None if mode == 'no-keyspace' else 'ks'
        routing_key = None if mode == 'no-routing-key' else b'key'
    pol = vc.obj(TokenAwarePolicy, _child_policy=Child(), _cluster_metadata=Meta(), shuffle_replicas=shuffle_on)
    q = None if mode == 'no-statement' else Q()
    got = plan_list(vc.call(TA + 'make_query_plan', pol, None if mode == 'no-keyspace' else 'working_ks', q))
    if mode != 'routed':
        vc.check('unrouted/child-plan-unchanged', got == child_plan)
        return
    order = list(replicas)
    shuffle(order)
    first = [r for r in order if r.is_up and dist[r] == HostDistance.LOCAL]
    want = first + [h for h in child_plan if h not in first]
    vc.check('post/live-local-replicas-first-in-replica-order', got[:len(first)] == first)
    vc.check('post/then-the-rest-of-the-child-plan-in-child-order', got[len(first):] == [h for h in child_plan if h not in first])
    vc.check('post/no-host-repeated', len(got) == len(set(got)))
    vc.check('post/no-host-of-the-child-plan-left-out', set(child_plan) <= set(got))
    vc.check('post/replicas-looked-up-for-the-statements-keyspace-and-key', ('get_replicas', 'ks', b'key') in calls)
    if nrep == 2 and not shuffle_on:
        vc.must_fail('selfcheck/replicas-never-first', got == child_plan)


# the replicas the policy asks for must follow the keyspace's CURRENT replication settings (same contract as C26/keyspace-update)
from contracts import c26_placement as _C26
harness('C22', 'replicas-follow-keyspace-update', functions=['cassandra.metadata.Metadata._update_keyspace', 'cassandra.metadata.TokenMap.rebuild_keyspace',
                                                           'cassandra.metadata.TokenMap.get_replicas'], native='contracts.native.c26:replay')(_C26.keyspace_update)


# The contract assumed of the child policy above - it never plans a host whose distance it reports IGNORED, and it plans every other live host once - is what keeps
# "no host of the child plan is lost" true end to end.  For the child every default configuration uses (DCAwareRoundRobinPolicy, plain or under
# DefaultLoadBalancingPolicy) it is C21's postcondition; it is re-discharged here so that a change to that child's distance()/plan agreement fails this property too.
from contracts import c21_lb_plans as _C21
_DC = 'cassandra.policies.DCAwareRoundRobinPolicy.'
harness('C22', 'child[DCAwareRoundRobinPolicy]-plan-agrees-with-distance', functions=[_DC + 'make_query_plan', _DC + 'distance', _DC + '_dc'], native='contracts.native.c21:replay')(_C21.dc_plan)
