"""C29 - simple-statement parameters are injection-safe and value-preserving."""
import os
import z3
from pyvc.engine import harness
from pyvc import sym
from pyvc.sym import SStr, SBool, SInt
from pyvc.interp import get_attr, PyExc, exc_class
from pyvc.libmodels import int_to_str, str_replace_all

LEVEL = 'other'
LEAN_LEMMAS = ['quote_roundtrip']
TRUSTED = ['CQL literal grammar (Cassandra Lexer.g): STRING_LITERAL quoted with \' and \'\' for a quote; INTEGER -?[0-9]+; FLOAT incl. exponent, NaN, Infinity; HEXNUMBER 0x[0-9a-f]*; UUID; collection literals [..] {..} {k: v} (..)',
           'E-STR (str.replace replaces every occurrence, str(int) is the decimal numeral), E-HEX (hexlify), E-REPR (repr(float) is the shortest string that reads back as the same binary64)',
           'lemma L1 of C27 (a quote-doubled text lexes back to the original): quote_roundtrip in lemmas/Lemmas.lean, elaborated by lean on every run; the identification of str.replace_all / the lexer with esc / unesc is assumed as in C27',
           'deductive part: text (every string), integers, util.Date, datetimes (symbolic instant), float special values, dispatch of subclasses; bytes / floats / decimals / uuids / dates / times / inet / nested '
           'collections and bind_params are compared with the prepared-statement encoding through an independent literal parser on generated values only (bounded stand-in)']
EXPLANATION = 'string postconditions on the real Encoder.cql_encode_* methods and _encoder_for dispatch; bounded parse-back of rendered literals (nested to depth 3) by an independent CQL literal parser compared with what cqltypes would serialize'

E = 'cassandra.encoder.Encoder.'
TIER = os.environ.get('VERIF_TIER', 'quick')
INTEGER = z3.Concat(z3.Option(z3.Re('-')), z3.Plus(z3.Range('0', '9')))


def quoted(s):
    return SStr(z3.Concat(z3.StringVal("'"), str_replace_all(sym.lift(s).t, z3.StringVal("'"), z3.StringVal("''")), z3.StringVal("'")))


@harness('C29', 'text-and-numbers', functions=[E + n for n in ('cql_encode_all_types', '_encoder_for', 'cql_encode_str', 'cql_encode_object', 'cql_encode_date_ext', 'cql_encode_datetime', 'cql_encode_float',
                                                               'cql_encode_none')] + ['cassandra.encoder.cql_quote'], native='contracts.native.c29:replay')
def text_and_numbers(vc):
    """for every text s: ensures the literal is ' + s with every ' doubled + ' (one string literal, whatever s contains);  for every integer n: the decimal numeral of n (one INTEGER
    token);  for every util.Date d: the numeral of days + 2^31;  for every datetime (symbolic whole seconds and microsecond): the numeral of the instant's whole milliseconds - the value
    cqltypes.DateType.serialize encodes;  NaN / +-Infinity spelled as CQL spells them;  None is NULL"""
    from cassandra.encoder import Encoder
    from cassandra import util
    import calendar
    enc = Encoder()
    s = vc.str('text')
    vc.check('text/one-quoted-literal-with-doubled-quotes', sym.lift(vc.call(E + 'cql_encode_all_types', enc, s)) == quoted(s))
    n = vc.int('integer')
    r = vc.call(E + 'cql_encode_all_types', enc, n)
    vc.check('int/decimal-numeral', sym.lift(r) == int_to_str(n))
    d = vc.int('days')
    vc.check('Date/offset-day-numeral', sym.lift(vc.call(E + 'cql_encode_date_ext', enc, vc.obj(util.Date, days_from_epoch=d))) == int_to_str(d + 2 ** 31))
    secs, us = vc.int('whole_seconds'), vc.int('microsecond')
    vc.assume(sym.and_(us >= 0, us < 10 ** 6))

    class _DT(object):
        microsecond = us

        def utctimetuple(self):
            return 'TT'
    vc.stub(calendar.timegm, lambda tt: secs)
    total = secs * 10 ** 6 + us
    want_ms = sym.ite(total >= 0, total // 1000, -((-total) // 1000))
    r = vc.call(E + 'cql_encode_datetime', enc, _DT())
    vc.check('datetime/numeral-of-the-exact-milliseconds-the-prepared-path-sends', isinstance(r, SStr) and r == int_to_str(want_ms))
    vc.check('float/special-values', vc.call(E + 'cql_encode_all_types', enc, float('nan')) == 'NaN' and vc.call(E + 'cql_encode_all_types', enc, float('inf')) == 'Infinity' and
             vc.call(E + 'cql_encode_all_types', enc, float('-inf')) == '-Infinity' and vc.call(E + 'cql_encode_all_types', enc, 0.1) == '0.1')
    vc.check('none/NULL', vc.call(E + 'cql_encode_all_types', enc, None) == 'NULL')
    vc.must_fail('selfcheck/text-rendered-bare', sym.lift(vc.call(E + 'cql_encode_all_types', enc, s)) == s)


@harness('C29', 'subclass-dispatch', functions=[E + '_encoder_for', E + 'cql_encode_all_types', E + 'cql_encode_list_collection', E + 'cql_encode_map_collection', E + 'cql_encode_set_collection',
                                                E + 'cql_encode_sequence'], native='contracts.native.c29:replay')
def subclass_dispatch(vc):
    """for a subclass of each supported Python type (str, bytes, int, float, Decimal, UUID, datetime, date, time, list, tuple, set, frozenset, dict): ensures the value - alone or inside a
    list / set / map / IN sequence - is rendered by the encoder of its base type (in particular a str subclass is quoted), never by the bare str() fall-back"""
    import datetime
    import decimal
    import uuid
    from cassandra.encoder import Encoder, ValueSequence
    enc = Encoder()
    bases = [str, bytes, int, float, decimal.Decimal, uuid.UUID, datetime.datetime, datetime.date, datetime.time, list, tuple, set, frozenset, dict]
    base = vc.choice('base_type', bases)
    where = vc.choice('position', ['alone', 'in-list', 'in-set', 'map-key', 'map-value', 'in-sequence'])
    Sub = type('My' + base.__name__.capitalize(), (base,), {})
    raw = {str: "x' OR '1'='1", bytes: b'\x00\xff', int: 5, float: 1.5, decimal.Decimal: '1.10', uuid.UUID: '12345678-1234-5678-1234-567812345678', list: [1], tuple: (1,), set: {1},
           frozenset: {1}, dict: {1: 2}}.get(base)
    if base is datetime.datetime:
        v, plain = Sub(2020, 1, 2, 3, 4, 5), datetime.datetime(2020, 1, 2, 3, 4, 5)
    elif base is datetime.date:
        v, plain = Sub(2020, 1, 2), datetime.date(2020, 1, 2)
    elif base is datetime.time:
        v, plain = Sub(1, 2, 3), datetime.time(1, 2, 3)
    else:
        v, plain = Sub(raw), base(raw)
    hashable = base not in (list, set, dict)
    if where in ('in-set', 'map-key') and not hashable:
        return
    wrap = {'alone': lambda x: x, 'in-list': lambda x: [x], 'in-set': lambda x: {x}, 'map-key': lambda x: {x: 1}, 'map-value': lambda x: {1: x}, 'in-sequence': lambda x: ValueSequence([x])}[where]
    got = vc.call(E + 'cql_encode_all_types', enc, wrap(v))
    want = Encoder().cql_encode_all_types(wrap(plain))
    vc.check('subclass/rendered-like-its-base-type', got == want)
    if base is str:
        vc.check('subclass/str-subclass-is-quoted', "'x'' OR ''1''=''1'" in got)


def literals_parse_back(tier, seed):
    from contracts.native import c29
    return c29.literals_parse_back(tier, seed)


BOUNDED = [literals_parse_back]
