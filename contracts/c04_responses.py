"""C04 - response frames decode to exactly what the server sent.

Every harness builds a response body from the *specification layout* of symbolic contents (numbers, byte strings and texts of any length
the notation allows), followed by an arbitrary tail, hands it to the real reader and requires (a) the decoded message carries exactly those
contents and (b) exactly the bytes of the layout were consumed (the tail is untouched).
"""
import os
import z3
from pyvc.engine import harness
from pyvc import sym
from pyvc.sym import SBytes
from pyvc.interp import SObj, PyExc, exc_class
from pyvc.libmodels import MBytesIO, _M
from spec import cser
from contracts.wire_common import length_mode, cat, B, S, blen, s_byte, s_short, s_int, s_uint, s_long, s_bytes, s_short_bytes, s_string, s_string_list, same

LEVEL = 'proof'
TRUSTED = ['the response layouts below are transcribed from native_protocol_v1..v5.spec (sections 4.2, 9) and the DSE extensions; spec/native_protocol.py holds the concrete encoder used by the bounded stand-in',
           'E-STRUCT (struct unpack = big-endian two\'s complement), E-BYTESIO (read(n) returns at most n bytes from the position), E-CODEC (utf-8 decode(encode(s)) == s), E-UUID (UUID(bytes=b).bytes == b), '
           'E-INET (inet_ntop is an opaque injective function of the address bytes)',
           'A-META: the opcode -> message class and error code -> error class registries are what the class statements say (read from the live registries at check time)',
           'deductive part: field values and byte strings are symbolic; the NUMBER of list / map entries, columns and rows is unrolled (0..2); type options cover every primitive code and one level of '
           'list/set/map/tuple/udt/custom nesting (read_type is recursive: deeper nesting is the same call)',
           'residual (not decided): the relative order of the DSE continuous-paging page number and NO_METADATA / new_metadata_id in ROWS metadata (no specification text available in the sandbox)']
EXPLANATION = ('decoded-message == contents postconditions on the real read_* primitives, _ProtocolHandler.decode_message (every flag subset), every ErrorMessage subclass recv_error_info/to_exception, '
               'ResultMessage.recv_body for the five kinds incl. metadata flag combinations and read_type, EventMessage, READY/AUTHENTICATE/AUTH_CHALLENGE/AUTH_SUCCESS/SUPPORTED; '
               'bounded end-to-end decode of spec-encoded frames')

PR = 'cassandra.protocol.'
KF_AUTH = 'KF-C04-auth-success-token-handed-over-as-text'
VERSIONS = (1, 2, 3, 4, 5, 6, 0x41, 0x42)
TIER = os.environ.get('VERIF_TIER', 'quick')


def reader(vc, layout, tail_name='tail'):
    """a BytesIO positioned at the start of `layout ++ tail`"""
    tail = B(vc, tail_name, 64)
    body = cat(layout, tail)
    return MBytesIO(body, 0), blen(layout)


def consumed(vc, name, f, n):
    vc.check(name + '/consumes-exactly-its-bytes', sym.lift(f.pos) == n if not isinstance(f.pos, int) or not isinstance(n, int) else f.pos == n)


@harness('C04', 'read-primitives', functions=[PR + n for n in ('read_byte', 'read_int', 'read_short', 'read_consistency_level', 'read_string', 'read_binary_string', 'read_longstring',
                                                              'read_binary_longstring', 'read_stringlist', 'read_stringmap', 'read_bytesmap', 'read_stringmultimap', 'read_value',
                                                              'read_inet', 'read_inet_addr_only', 'read_error_code_map')], native='contracts.native.c04:replay')
def primitives(vc):
    """requires f.rest == notation(x) ++ tail  ensures result == x and f.rest == tail, for [int] [short] [string] [long string] [bytes] [short bytes] [value]
    [string list] [string map] [bytes map] [string multimap] [inet] and the failure-reason map"""
    length_mode(vc)
    which = vc.choice('notation', ['int', 'short', 'string', 'binary_string', 'longstring', 'binary_longstring', 'value', 'value-null', 'stringlist', 'stringmap', 'bytesmap',
                                   'stringmultimap', 'inet4', 'inet6', 'error_code_map', 'byte'])
    i, sh = vc.int('int'), vc.int('short')
    vc.assume(sym.and_(cser.in_signed_range(i, 4), sh >= 0, sh <= 65535))
    if which == 'int':
        f, n = reader(vc, s_int(i))
        vc.check('read_int/value', vc.call(PR + 'read_int', f) == i)
    elif which == 'short':
        f, n = reader(vc, s_short(sh))
        vc.check('read_short/value', vc.call(PR + 'read_short', f) == sh)
        f2, _ = reader(vc, s_short(sh), 'tail2')
        vc.check('read_consistency_level/value', vc.call(PR + 'read_consistency_level', f2) == sh)
    elif which == 'byte':
        b = vc.int('byte')
        vc.assume(sym.and_(b >= 0, b <= 127))        # [byte] values the protocol uses: booleans and address sizes
        f, n = reader(vc, s_byte(b))
        vc.check('read_byte/value', vc.call(PR + 'read_byte', f) == b)
    elif which == 'string':
        s, sb = S(vc, 'text')
        f, n = reader(vc, s_short_bytes(sb))
        vc.check('read_string/value', vc.call(PR + 'read_string', f) == s)
    elif which == 'binary_string':
        sb = B(vc, 'id', 65535)
        f, n = reader(vc, s_short_bytes(sb))
        same(vc, 'read_binary_string/value', vc.call(PR + 'read_binary_string', f), sb)
    elif which == 'longstring':
        s, sb = S(vc, 'text', 2 ** 31 - 1)
        f, n = reader(vc, s_bytes(sb))
        vc.check('read_longstring/value', vc.call(PR + 'read_longstring', f) == s)
    elif which == 'binary_longstring':
        sb = B(vc, 'token')
        f, n = reader(vc, s_bytes(sb))
        same(vc, 'read_binary_longstring/value', vc.call(PR + 'read_binary_longstring', f), sb)
    elif which == 'value':
        sb = B(vc, 'cell')
        f, n = reader(vc, s_bytes(sb))
        same(vc, 'read_value/value', vc.call(PR + 'read_value', f), sb)
    elif which == 'value-null':
        neg = vc.int('negative_length')
        vc.assume(sym.and_(neg < 0, neg >= -2 ** 31))
        f, n = reader(vc, s_int(neg))
        vc.check('read_value/negative-length-is-null', vc.call(PR + 'read_value', f) is None)
    elif which == 'stringlist':
        (a, ab), (b, bb) = S(vc, 'item0'), S(vc, 'item1')
        f, n = reader(vc, cat(s_short(2), s_short_bytes(ab), s_short_bytes(bb)))
        r = vc.call(PR + 'read_stringlist', f)
        vc.check('read_stringlist/items-in-order', isinstance(r, list) and len(r) == 2 and sym.and_(r[0] == a, r[1] == b))
        f0, n0 = reader(vc, s_short(0), 'tail0')
        vc.check('read_stringlist/empty', vc.call(PR + 'read_stringlist', f0) == [])
        consumed(vc, 'read_stringlist/empty', f0, n0)
    elif which == 'stringmap':
        (v, vb) = S(vc, 'value')
        f, n = reader(vc, cat(s_short(2), s_string('COMPRESSION'), s_short_bytes(vb), s_string('k2'), s_string('v2')))
        r = vc.call(PR + 'read_stringmap', f)
        vc.check('read_stringmap/entries', isinstance(r, dict) and len(r) == 2 and sym.and_(r['COMPRESSION'] == v, r['k2'] == 'v2'))
    elif which == 'bytesmap':
        vb = B(vc, 'payload_value')
        f, n = reader(vc, cat(s_short(2), s_string('k'), s_bytes(vb), s_string('n'), s_int(-1)))
        r = vc.call(PR + 'read_bytesmap', f)
        vc.check('read_bytesmap/entries', isinstance(r, dict) and len(r) == 2 and r['n'] is None)
        same(vc, 'read_bytesmap/value-bytes', r['k'], vb)
    elif which == 'stringmultimap':
        (v, vb) = S(vc, 'value')
        f, n = reader(vc, cat(s_short(2), s_string('CQL_VERSION'), s_short(1), s_short_bytes(vb), s_string('COMPRESSION'), s_short(2), s_string('lz4'), s_string('snappy')))
        r = vc.call(PR + 'read_stringmultimap', f)
        vc.check('read_stringmultimap/entries', isinstance(r, dict) and len(r) == 2 and isinstance(r['CQL_VERSION'], list) and len(r['CQL_VERSION']) == 1 and
                 sym.and_(r['CQL_VERSION'][0] == v) and r['COMPRESSION'] == ['lz4', 'snappy'])
    elif which in ('inet4', 'inet6'):
        size = 4 if which == 'inet4' else 16
        addr = B(vc, 'address', size, size)
        port = vc.int('port')
        vc.assume(cser.in_signed_range(port, 4))
        f, n = reader(vc, cat(bytes([size]), addr, s_int(port)))
        r = vc.call(PR + 'read_inet', f)
        vc.check('read_inet/address-and-port', isinstance(r, tuple) and len(r) == 2 and sym.and_(r[1] == port, r[0] == _ntop(vc, size, addr)))
    else:
        addr = B(vc, 'address', 4, 4)
        f, n = reader(vc, cat(s_int(1), bytes([4]), addr, s_short(sh)))
        r = vc.call(PR + 'read_error_code_map', f)
        vc.check('read_error_code_map/entries', isinstance(r, dict) and len(r) == 1 and sym.and_(dget(vc, r, _ntop(vc, 4, addr), -1) == sh))
    consumed(vc, which, f, n)


def dget(vc, d, k, default=None):
    """d[k] for a dict whose keys may be symbolic (forks on key equality)"""
    from pyvc.libmodels import dict_find_key, MISSING
    kk = dict_find_key(vc.ctx, d, k)
    return default if kk is MISSING else d[kk]


def _ntop(vc, size, addr):
    """what util.inet_ntop / socket.inet_ntop returns for these address bytes (E-INET: an opaque function of family and bytes)"""
    import socket
    from pyvc.libmodels import inet_ntop_model
    return inet_ntop_model(vc.ctx, socket.AF_INET if size == 4 else socket.AF_INET6, addr)


def A(vc, obj, name):
    from pyvc.interp import get_attr
    return get_attr(vc.ctx, obj, name)


def same_value(got, val):
    """got == val for None / bool expectations (a symbolic bool compares by value, a Python value by identity)"""
    if val is None:
        return got is None
    if isinstance(got, sym.SBool):
        return got == val
    return isinstance(got, bool) and got is val


def is_instance(obj, cls):
    return issubclass(exc_class(obj), cls)


# ---------------------------------------------------------------------------
# frame-level prefix: tracing id, warnings, custom payload for every flag subset

def _mk_prefix(pv):
  @harness('C04', 'decode_message-prefix-v%#x' % pv, functions=[PR + '_ProtocolHandler.decode_message'], native='contracts.native.c04:replay')
  def decode_prefix(vc):
      """for every subset of {compression, tracing, warnings, custom payload, beta, an unknown flag bit}: ensures the body is inflated as a whole first (below v5), then the
      tracing id (16 bytes), the warnings [string list] and the custom payload [bytes map] are peeled in that (specification) order, the message class is the one
      registered for the opcode and receives exactly the rest, and the message carries stream id, trace id, warnings and payload exactly as sent"""
      from cassandra.protocol import _ProtocolHandler, _MessageType
      length_mode(vc)
      tracing, warn, payload = vc.choice('tracing', [False, True]), vc.choice('warnings', [False, True]), vc.choice('custom_payload', [False, True])
      compressed = vc.choice('compressed', [False, True])
      beta = vc.choice('beta_flag', [False, True])
      unknown = vc.choice('unknown_flag_0x20', [False, True])
      stream = vc.int('stream_id')
      parts = []
      trace = B(vc, 'trace_id', 16, 16)
      (w0, w0b) = S(vc, 'warning0')
      pval = B(vc, 'payload_value')
      if tracing:
          parts.append(trace)
      if warn:
          parts.append(cat(s_short(2), s_short_bytes(w0b), s_string('second warning')))
      if payload:
          parts.append(cat(s_short(2), s_string('k'), s_bytes(pval), s_string('null'), s_int(-1)))
      rest = B(vc, 'message_body', 2 ** 20)
      plain = cat(*(parts + [rest]))
      wire = B(vc, 'compressed_bytes', 2 ** 20) if compressed else plain
      flags = (1 if compressed else 0) | (2 if tracing else 0) | (8 if warn else 0) | (4 if payload else 0) | (0x10 if beta else 0) | (0x20 if unknown else 0)
      seen = {}

      class Resp(object):
          opcode = 0x99

          @classmethod
          def recv_body(cls, f, protocol_version, user_type_map, result_metadata, cep):
              seen['rest'] = sym.lift(f.content)[f.pos:] if f.pos != 0 else f.content
              seen['pv'], seen['result_metadata'] = protocol_version, result_metadata
              return SObj(Resp, {})

      class H(_ProtocolHandler):
          message_types_by_opcode = {0x99: Resp}
          column_encryption_policy = None
      decompressor = _M(lambda b: plain, 'decompressor')
      checks5 = 5 <= pv < 0x41 or pv >= 0x41 and False
      from cassandra import ProtocolVersion
      framed = ProtocolVersion.has_checksumming_support(pv)
      if compressed and framed:
          # from v5 the frame header never carries the compression flag (segments are compressed instead): outside the contract
          return
      k, msg = vc.call_catch(_ProtocolHandler.__dict__['decode_message'].__func__, H, pv, {}, stream, flags, 0x99, wire, decompressor, 'RESULT-METADATA')
      vc.check('post/decodes', k == 'ok')
      if k != 'ok':
          return
      same(vc, 'post/message-class-receives-exactly-the-rest-of-the-body', seen.get('rest', b'<not called>'), rest)
      vc.check('post/message-class-gets-version-and-result-metadata', seen.get('pv') == pv and seen.get('result_metadata') == 'RESULT-METADATA')
      vc.check('post/stream-id', A(vc, msg, 'stream_id') == stream)
      tid = A(vc, msg, 'trace_id')
      if tracing:
          vc.check('post/trace-id-is-the-16-bytes', tid is not None and sym.lift(A(vc, tid, 'bytes')) == trace)
      else:
          vc.check('post/no-trace-id', tid is None)
      ws = A(vc, msg, 'warnings')
      if warn:
          vc.check('post/warnings-in-order', isinstance(ws, list) and len(ws) == 2 and sym.and_(ws[0] == w0, ws[1] == 'second warning'))
      else:
          vc.check('post/no-warnings', ws is None)
      cp = A(vc, msg, 'custom_payload')
      if payload:
          vc.check('post/custom-payload-entries', isinstance(cp, dict) and len(cp) == 2 and cp['null'] is None and sym.lift(cp['k']) == pval)
      else:
          vc.check('post/no-custom-payload', cp is None)
      if tracing and warn and not payload and not compressed and pv == 4:
          vc.must_fail('selfcheck/warnings-before-trace-id', sym.lift(A(vc, tid, 'bytes')) == sym.lift(plain)[2:18])
  return decode_prefix


for _pv in VERSIONS:
    _mk_prefix(_pv)


# ---------------------------------------------------------------------------
# READY / AUTHENTICATE / AUTH_CHALLENGE / AUTH_SUCCESS / SUPPORTED

@harness('C04', 'session-setup-responses', functions=[PR + n + '.recv_body' for n in ('ReadyMessage', 'AuthenticateMessage', 'AuthChallengeMessage', 'AuthSuccessMessage', 'SupportedMessage')],
         native='contracts.native.c04:replay')
def setup_responses(vc):
    """ensures READY is empty; AUTHENTICATE carries the authenticator class name [string]; AUTH_CHALLENGE / AUTH_SUCCESS carry the token [bytes] (null allowed);
    SUPPORTED carries the [string multimap] with CQL_VERSION split off"""
    length_mode(vc)
    from cassandra import protocol as P
    pv = vc.choice('protocol_version', list(VERSIONS))
    which = vc.choice('message', ['READY', 'AUTHENTICATE', 'AUTH_CHALLENGE', 'AUTH_SUCCESS', 'AUTH_SUCCESS-null', 'SUPPORTED'])
    if which == 'READY':
        f, n = reader(vc, b'')
        r = vc.call(PR + 'ReadyMessage.recv_body', f, pv, {}, None, None)
        vc.check('READY/is-a-ReadyMessage', is_instance(r, P.ReadyMessage))
    elif which == 'AUTHENTICATE':
        s, sb = S(vc, 'authenticator')
        f, n = reader(vc, s_short_bytes(sb))
        r = vc.call(PR + 'AuthenticateMessage.recv_body', f, pv, {}, None, None)
        vc.check('AUTHENTICATE/authenticator-name', is_instance(r, P.AuthenticateMessage) and A(vc, r, 'authenticator') == s)
    elif which == 'AUTH_CHALLENGE':
        tok = B(vc, 'token')
        f, n = reader(vc, s_bytes(tok))
        r = vc.call(PR + 'AuthChallengeMessage.recv_body', f, pv, {}, None, None)
        vc.check('AUTH_CHALLENGE/token', is_instance(r, P.AuthChallengeMessage) and sym.lift(A(vc, r, 'challenge')) == tok)
    elif which == 'AUTH_SUCCESS':
        tok = B(vc, 'token')
        f, n = reader(vc, s_bytes(tok))
        k, r = vc.call_catch(PR + 'AuthSuccessMessage.recv_body', f, pv, {}, None, None)
        # the token is [bytes]; the driver hands it over as text (known finding): what is decided here is that a token which IS text arrives unchanged
        vc.check('KF:%s/any-token-bytes-accepted' % KF_AUTH, k == 'ok')
        if k != 'ok':
            vc.check('AUTH_SUCCESS/only-a-token-that-is-not-text-is-refused', is_instance(r, UnicodeDecodeError))
            return
        got = A(vc, r, 'token')
        vc.check('KF:%s/token-carried-as-bytes' % KF_AUTH, isinstance(got, (bytes, SBytes)) and sym.lift(got) == tok)
        if not isinstance(got, (bytes, SBytes)):
            from pyvc.libmodels import codec_encode
            vc.check('AUTH_SUCCESS/text-of-the-token-unchanged', is_instance(r, P.AuthSuccessMessage) and sym.lift(codec_encode(vc.ctx, got, 'utf8')) == tok)
    elif which == 'AUTH_SUCCESS-null':
        f, n = MBytesIO(s_int(-1), 0), 4
        k, r = vc.call_catch(PR + 'AuthSuccessMessage.recv_body', f, pv, {}, None, None)
        vc.check('AUTH_SUCCESS/null-token-accepted', k == 'ok' and is_instance(r, P.AuthSuccessMessage))
        if k == 'ok':
            vc.check('KF:%s/null-token-is-None' % KF_AUTH, A(vc, r, 'token') is None)
            vc.check('AUTH_SUCCESS/null-token-is-empty-or-None', A(vc, r, 'token') in (None, b'', ''))
    else:
        (v, vb) = S(vc, 'cql_version')
        f, n = reader(vc, cat(s_short(3), s_string('COMPRESSION'), s_short(2), s_string('lz4'), s_string('snappy'), s_string('CQL_VERSION'), s_short(1), s_short_bytes(vb),
                              s_string('PROTOCOL_VERSIONS'), s_short(1), s_string('4/v4')))
        r = vc.call(PR + 'SupportedMessage.recv_body', f, pv, {}, None, None)
        cv, opts = A(vc, r, 'cql_versions'), A(vc, r, 'options')
        vc.check('SUPPORTED/cql-versions-and-options', isinstance(cv, list) and len(cv) == 1 and sym.and_(cv[0] == v) and
                 opts == {'COMPRESSION': ['lz4', 'snappy'], 'PROTOCOL_VERSIONS': ['4/v4']})
    consumed(vc, which, f, n)


# ---------------------------------------------------------------------------
# ERROR: every code of the specification (section 9), code-specific fields, exception types

WRITE_TYPES = ['SIMPLE', 'BATCH', 'UNLOGGED_BATCH', 'COUNTER', 'BATCH_LOG', 'CAS', 'VIEW', 'CDC']
# code -> (driver message class name, documented exception type the application sees (module, name) or None = the message object itself, which is an Exception)
ERROR_CODES = {
    0x0000: ('ServerError', None), 0x000A: ('ProtocolException', None), 0x0100: ('BadCredentials', None),
    0x1000: ('UnavailableErrorMessage', 'Unavailable'), 0x1001: ('OverloadedErrorMessage', None), 0x1002: ('IsBootstrappingErrorMessage', None),
    0x1003: ('TruncateError', None), 0x1100: ('WriteTimeoutErrorMessage', 'WriteTimeout'), 0x1200: ('ReadTimeoutErrorMessage', 'ReadTimeout'),
    0x1300: ('ReadFailureMessage', 'ReadFailure'), 0x1400: ('FunctionFailureMessage', 'FunctionFailure'), 0x1500: ('WriteFailureMessage', 'WriteFailure'),
    0x1600: ('CDCWriteException', None), 0x2000: ('SyntaxException', None), 0x2100: ('UnauthorizedErrorMessage', 'Unauthorized'),
    0x2200: ('InvalidRequestException', 'InvalidRequest'), 0x2300: ('ConfigurationException', None), 0x2400: ('AlreadyExistsException', 'AlreadyExists'),
    0x2500: ('PreparedQueryNotFound', None),
}


def _mk_error(code, prop='C04', label=''):
    clsname, excname = ERROR_CODES[code]

    @harness(prop, '%sERROR-%#06x' % (label, code), functions=[PR + 'ErrorMessage.recv_body', PR + clsname + '.recv_error_info', PR + clsname + '.to_exception'], native='contracts.native.c04:replay')
    def h(vc):
        length_mode(vc)
        import cassandra
        from cassandra import protocol as P
        pv = vc.choice('protocol_version', list(VERSIONS))
        (m, mb) = S(vc, 'message')
        cl, a, b = vc.int('consistency'), vc.int('int_a'), vc.int('int_b')
        vc.assume(sym.and_(cl >= 0, cl <= 10, cser.in_signed_range(a, 4), cser.in_signed_range(b, 4)))
        want = None
        extra = b''
        if code == 0x1000:
            extra, want = cat(s_short(cl), s_int(a), s_int(b)), dict(consistency=cl, required_replicas=a, alive_replicas=b)
        elif code == 0x1100:
            wt = vc.choice('write_type', WRITE_TYPES)
            extra, want = cat(s_short(cl), s_int(a), s_int(b), s_string(wt)), dict(consistency=cl, received_responses=a, required_responses=b, write_type=cassandra.WriteType.name_to_value[wt])
        elif code == 0x1200:
            present = vc.choice('data_present', [0, 1])
            extra, want = cat(s_short(cl), s_int(a), s_int(b), bytes([present])), dict(consistency=cl, received_responses=a, required_responses=b, data_retrieved=bool(present))
        elif code in (0x1300, 0x1500):
            if pv >= 5:        # v5+: <reasonmap> = [int] n, then n x (<inetaddr>, [short] code)
                addr = B(vc, 'endpoint', 4, 4)
                rc = vc.int('failure_code')
                vc.assume(sym.and_(rc >= 0, rc <= 65535))
                nfail = vc.choice('failures', [0, 1])
                fmap = cat(s_int(nfail), *([bytes([4]), addr, s_short(rc)] if nfail else []))
                want = dict(consistency=cl, received_responses=a, required_responses=b, failures=nfail)
            else:
                nf = vc.int('failures')
                vc.assume(cser.in_signed_range(nf, 4))
                fmap = s_int(nf)
                want = dict(consistency=cl, received_responses=a, required_responses=b, failures=nf, error_code_map=None)
            if code == 0x1300:
                present = vc.choice('data_present', [0, 1])
                extra = cat(s_short(cl), s_int(a), s_int(b), fmap, bytes([present]))
                want['data_retrieved'] = bool(present)
            else:
                wt = vc.choice('write_type', WRITE_TYPES)
                extra = cat(s_short(cl), s_int(a), s_int(b), fmap, s_string(wt))
                want['write_type'] = cassandra.WriteType.name_to_value[wt]
        elif code == 0x1400:
            (ks, ksb), (fn, fnb), (t0, t0b) = S(vc, 'keyspace'), S(vc, 'function'), S(vc, 'arg_type0')
            extra, want = cat(s_short_bytes(ksb), s_short_bytes(fnb), s_short(2), s_short_bytes(t0b), s_string('int')), dict(keyspace=ks, function=fn, arg_types=[t0, 'int'])
        elif code == 0x2400:
            (ks, ksb), (tb, tbb) = S(vc, 'keyspace'), S(vc, 'table')
            extra, want = cat(s_short_bytes(ksb), s_short_bytes(tbb)), dict(keyspace=ks, table=tb)
        elif code == 0x2500:
            qid = B(vc, 'unknown_statement_id', 65535)
            extra, want = s_short_bytes(qid), qid
        f, n = reader(vc, cat(s_int(code), s_short_bytes(mb), extra))
        k, r = vc.call_catch(PR + 'ErrorMessage.recv_body', f, pv, {}, None, None)
        vc.check('post/decodes', k == 'ok')
        if k != 'ok':
            return
        consumed(vc, 'post', f, n)
        vc.check('post/message-class-for-the-code', exc_class(r) is getattr(P, clsname))
        vc.check('post/code-and-message-text', sym.and_(A(vc, r, 'code') == code, A(vc, r, 'message') == m))
        info = A(vc, r, 'info')
        if isinstance(want, dict):
            ok = isinstance(info, dict) and set(info) >= set(want)
            vc.check('post/info-has-the-code-specific-fields', ok)
            if ok:
                for key, val in want.items():
                    got = info[key]
                    if isinstance(val, list):
                        vc.check('post/info/' + key, isinstance(got, list) and len(got) == len(val) and sym.and_(*[g == v for g, v in zip(got, val)]))
                    elif val is None or isinstance(val, bool):
                        vc.check('post/info/' + key, same_value(got, val))
                    else:
                        vc.check('post/info/' + key, got == val)
                if code in (0x1300, 0x1500) and pv >= 5:
                    em = info.get('error_code_map')
                    vc.check('post/info/error_code_map', isinstance(em, dict) and len(em) == nfail and (not nfail or sym.and_(dget(vc, em, _ntop(vc, 4, addr), -1) == rc)))
        elif want is not None:
            same(vc, 'post/info-is-the-statement-id', info, want)
        else:
            vc.check('post/no-extra-info', info is None)
        # what the application sees
        vc.stub('cassandra.consistency_value_to_name', lambda *a, **k: 'CL')      # only used in the exception's message text
        for fn_ in ('summary_msg',):
            vc.abstract_expr(PR + 'ErrorMessage.summary_msg', r'%', lambda it, node, mm: 'SUMMARY')
        k2, exc = vc.call_catch(PR + clsname + '.to_exception', r)
        vc.check('to_exception/returns', k2 == 'ok')
        if k2 != 'ok':
            return
        if excname is None:
            vc.check('to_exception/is-the-error-message-itself', exc is r)
        else:
            vc.check('to_exception/documented-exception-type', exc_class(exc) is getattr(cassandra, excname))
            if isinstance(want, dict):
                for key, val in want.items():
                    if key == 'arg_types':
                        got = A(vc, exc, key)
                        vc.check('to_exception/field/' + key, isinstance(got, list) and len(got) == 2 and sym.and_(got[0] == val[0], got[1] == val[1]))
                    elif val is None or isinstance(val, bool):
                        vc.check('to_exception/field/' + key, same_value(A(vc, exc, key), val))
                    else:
                        vc.check('to_exception/field/' + key, A(vc, exc, key) == val)
    h.__doc__ = ('ERROR code %#06x for every protocol version: requires body == <code><message>%s  ensures the message class is %s with code, message text and every '
                 'code-specific field exactly as sent, the whole body consumed, and to_exception() gives %s with the fields intact' %
                 (code, ' + code-specific fields' if code in (0x1000, 0x1100, 0x1200, 0x1300, 0x1400, 0x1500, 0x2400, 0x2500) else '', clsname,
                  'cassandra.' + excname if excname else 'the message itself (an Exception)'))
    return h


for _c in sorted(ERROR_CODES):
    _mk_error(_c)


# ---------------------------------------------------------------------------
# column type options ([option] of the specification, section 4.2.5.2)

PRIMITIVE_CODES = {0x01: 'AsciiType', 0x02: 'LongType', 0x03: 'BytesType', 0x04: 'BooleanType', 0x05: 'CounterColumnType', 0x06: 'DecimalType', 0x07: 'DoubleType', 0x08: 'FloatType',
                   0x09: 'Int32Type', 0x0A: 'UTF8Type', 0x0B: 'DateType', 0x0C: 'UUIDType', 0x0D: 'VarcharType', 0x0E: 'IntegerType', 0x0F: 'TimeUUIDType', 0x10: 'InetAddressType', 0x11: 'SimpleDateType',
                   0x12: 'TimeType', 0x13: 'ShortType', 0x14: 'ByteType', 0x15: 'DurationType'}
# (label, option bytes, structural description the decoded class must match)
TYPE_OPTIONS = [('int', s_short(0x09), ('Int32Type',)), ('text', s_short(0x0D), ('VarcharType',)), ('blob', s_short(0x03), ('BytesType',)),
                ('list<int>', s_short(0x20) + s_short(0x09), ('ListType', [('Int32Type',)])),
                ('set<text>', s_short(0x22) + s_short(0x0D), ('SetType', [('VarcharType',)])),
                ('map<int,blob>', s_short(0x21) + s_short(0x09) + s_short(0x03), ('MapType', [('Int32Type',), ('BytesType',)])),
                ('tuple<int,list<text>>', s_short(0x31) + s_short(2) + s_short(0x09) + s_short(0x20) + s_short(0x0D), ('TupleType', [('Int32Type',), ('ListType', [('VarcharType',)])])),
                ('udt ks1.addr{street text, zip int}', s_short(0x30) + s_string('ks1') + s_string('addr') + s_short(2) + s_string('street') + s_short(0x0D) + s_string('zip') + s_short(0x09),
                 ('UserType', [('VarcharType',), ('Int32Type',)], dict(keyspace='ks1', typename='addr', fieldnames=('street', 'zip')))),
                ('custom PointType', s_short(0x00) + s_string('org.apache.cassandra.db.marshal.BooleanType'), ('BooleanType',))]


def type_matches(t, desc):
    """the decoded class `t` is structurally the type `desc` = (base class name, [subtype descs], extra class attributes)"""
    from cassandra import cqltypes
    base = getattr(cqltypes, desc[0])
    if len(desc) == 1:
        return t is base
    if not (isinstance(t, type) and issubclass(t, base) and len(t.subtypes) == len(desc[1])):
        return False
    if len(desc) > 2 and any(getattr(t, k, None) != v for k, v in desc[2].items()):
        return False
    return all(type_matches(st, sd) for st, sd in zip(t.subtypes, desc[1]))


@harness('C04', 'read_type', functions=[PR + 'ResultMessage.read_type'], native='contracts.native.c04:replay')
def read_type(vc):
    """for every primitive type code and for list / set / map / tuple / udt / custom options: requires f.rest == [option] ++ tail  ensures the class denotes exactly that
    type (subtypes in order, udt keyspace / name / field names, the mapped class registered for the udt), the tail is untouched; an unknown code raises NotSupportedError"""
    from cassandra import protocol as P, cqltypes
    kind = vc.choice('option', ['primitive', 'unknown-code'] + [lbl for lbl, _, _ in TYPE_OPTIONS[3:]])
    utm = {'ks1': {'addr': 'MAPPED-CLASS'}}
    if kind == 'primitive':
        code = vc.choice('code', sorted(PRIMITIVE_CODES))
        f, n = reader(vc, s_short(code))
        t = vc.call(PR + 'ResultMessage.read_type', f, utm)
        vc.check('primitive/class-for-the-code', t is getattr(cqltypes, PRIMITIVE_CODES[code]))
    elif kind == 'unknown-code':
        code = vc.choice('code', [0x16, 0x23, 0x32, 0x7fff])
        f, n = reader(vc, s_short(code))
        k, r = vc.call_catch(PR + 'ResultMessage.read_type', f, utm)
        vc.check('unknown-code/raises-NotSupportedError', k == 'exc' and is_instance(r, P.NotSupportedError))
        return
    else:
        lbl, opt, desc = [x for x in TYPE_OPTIONS if x[0] == kind][0]
        f, n = reader(vc, opt)
        t = vc.call(PR + 'ResultMessage.read_type', f, utm)
        vc.check('option/class-denotes-exactly-the-type', type_matches(t, desc))
        if desc[0] == 'UserType':
            vc.check('option/udt-mapped-class-from-the-user-type-map', t.mapped_class == 'MAPPED-CLASS')
    consumed(vc, kind, f, n)


# ---------------------------------------------------------------------------
# EVENT and the schema-change description shared with RESULT kind 5

def _schema_change_layout(vc, pv, target):
    """(layout bytes, expected event dict) for a schema change of `target` at version pv (v1/v2: <change><keyspace><table>)"""
    change = vc.choice('change_type', ['CREATED', 'UPDATED', 'DROPPED'])
    (ks, ksb), (nm, nmb), (a0, a0b) = S(vc, 'keyspace'), S(vc, 'name'), S(vc, 'arg_type0')
    if pv < 3:
        if target == 'KEYSPACE':
            return cat(s_string(change), s_short_bytes(ksb), s_string('')), dict(target_type='KEYSPACE', change_type=change, keyspace=ks)
        vc.assume(blen(nmb) >= 1)
        return cat(s_string(change), s_short_bytes(ksb), s_short_bytes(nmb)), dict(target_type='TABLE', change_type=change, keyspace=ks, table=nm)
    lay = [s_string(change), s_string(target), s_short_bytes(ksb)]
    want = dict(target_type=target, change_type=change, keyspace=ks)
    if target != 'KEYSPACE':
        lay.append(s_short_bytes(nmb))
        if target in ('FUNCTION', 'AGGREGATE'):
            lay += [s_short(2), s_short_bytes(a0b), s_string('int')]
            want[target.lower()] = (nm, [a0, 'int'])
        else:
            want[target.lower()] = nm
    return cat(*lay), want


def _check_schema_event(vc, prefix, ev, want):
    import cassandra
    ok = isinstance(ev, dict) and set(ev) == set(want)
    vc.check(prefix + '/exactly-the-described-fields', ok)
    if not ok:
        return
    for k, v in want.items():
        if k in ('function', 'aggregate'):
            d = ev[k]
            cls = cassandra.UserFunctionDescriptor if k == 'function' else cassandra.UserAggregateDescriptor
            args = A(vc, d, 'argument_types')
            vc.check(prefix + '/' + k, is_instance(d, cls) and isinstance(args, list) and len(args) == 2 and sym.and_(A(vc, d, 'name') == v[0], args[0] == v[1][0], args[1] == v[1][1]))
        else:
            vc.check(prefix + '/' + k, sym.and_(ev[k] == v) if not isinstance(v, str) else ev[k] == v)


@harness('C04', 'EVENT', functions=[PR + 'EventMessage.recv_body', PR + 'EventMessage.recv_topology_change', PR + 'EventMessage.recv_status_change', PR + 'EventMessage.recv_schema_change'],
         native='contracts.native.c04:replay')
def events(vc):
    """ensures TOPOLOGY_CHANGE / STATUS_CHANGE carry the change and the node's [inet]; SCHEMA_CHANGE carries change, target and the target's coordinates for every target
    kind and protocol version; an unknown event type raises NotSupportedError"""
    length_mode(vc)
    from cassandra import protocol as P
    pv = vc.choice('protocol_version', list(VERSIONS))
    et = vc.choice('event_type', ['TOPOLOGY_CHANGE', 'STATUS_CHANGE', 'SCHEMA_CHANGE', 'UNKNOWN'])
    if et in ('TOPOLOGY_CHANGE', 'STATUS_CHANGE'):
        change = vc.choice('change', ['NEW_NODE', 'REMOVED_NODE', 'MOVED_NODE'] if et == 'TOPOLOGY_CHANGE' else ['UP', 'DOWN'])
        size = vc.choice('address_size', [4, 16])
        addr = B(vc, 'address', size, size)
        port = vc.int('port')
        vc.assume(cser.in_signed_range(port, 4))
        f, n = reader(vc, cat(s_string(et), s_string(change), bytes([size]), addr, s_int(port)))
        r = vc.call(PR + 'EventMessage.recv_body', f, pv, {}, None, None)
        ea = A(vc, r, 'event_args')
        vc.check(et + '/event-type', A(vc, r, 'event_type') == et)
        vc.check(et + '/change-and-address', isinstance(ea, dict) and set(ea) == {'change_type', 'address'} and ea['change_type'] == change and
                 isinstance(ea['address'], tuple) and sym.and_(ea['address'][0] == _ntop(vc, size, addr), ea['address'][1] == port))
    elif et == 'SCHEMA_CHANGE':
        target = vc.choice('target', ['KEYSPACE', 'TABLE', 'TYPE'] + (['FUNCTION', 'AGGREGATE'] if pv >= 4 else []))
        lay, want = _schema_change_layout(vc, pv, target)
        f, n = reader(vc, cat(s_string(et), lay))
        r = vc.call(PR + 'EventMessage.recv_body', f, pv, {}, None, None)
        vc.check(et + '/event-type', A(vc, r, 'event_type') == et)
        _check_schema_event(vc, et, A(vc, r, 'event_args'), want)
    else:
        f, n = reader(vc, cat(s_string('TRACE_COMPLETE'), s_string('x')))
        k, r = vc.call_catch(PR + 'EventMessage.recv_body', f, pv, {}, None, None)
        vc.check('unknown-event/raises-NotSupportedError', k == 'exc' and is_instance(r, P.NotSupportedError))
        return
    consumed(vc, et, f, n)


# ---------------------------------------------------------------------------
# RESULT: Void / Rows / Set_keyspace / Prepared / Schema_change

def _columns(vc, ncols, global_spec, tag):
    """(col_spec layout, expected [(ks, table, name, type desc)]) for ncols columns: symbolic keyspace / table / column names, column types from TYPE_OPTIONS"""
    (gks, gksb), (gtb, gtbb) = S(vc, tag + 'keyspace'), S(vc, tag + 'table')
    lay, want = [], []
    if global_spec:
        lay += [s_short_bytes(gksb), s_short_bytes(gtbb)]
    for i in range(ncols):
        (nm, nmb) = S(vc, '%scolumn%d_name' % (tag, i))
        if global_spec:
            ks, tb = gks, gtb
        else:
            (ks, ksb), (tb, tbb) = S(vc, '%scolumn%d_keyspace' % (tag, i)), S(vc, '%scolumn%d_table' % (tag, i))
            lay += [s_short_bytes(ksb), s_short_bytes(tbb)]
        lbl, opt, desc = TYPE_OPTIONS[i] if ncols <= 3 else TYPE_OPTIONS[i]
        if i == 1:
            lbl, opt, desc = vc.choice(tag + 'column1_type', TYPE_OPTIONS[1:] if TIER != 'quick' else [TYPE_OPTIONS[1], TYPE_OPTIONS[5], TYPE_OPTIONS[7]])
        lay += [s_short_bytes(nmb), opt]
        want.append((ks, tb, nm, desc))
    return lay, want


def _check_columns(vc, name, got, want, as_tuple=True):
    ok = isinstance(got, list) and len(got) == len(want)
    vc.check(name + '/one-entry-per-column', ok)
    if not ok:
        return
    for i, (g, w) in enumerate(zip(got, want)):
        if as_tuple:
            gk, gt, gn, gty = g if isinstance(g, tuple) and len(g) == 4 else (None, None, None, None)
        else:
            gk, gt, gn, gty = A(vc, g, 'keyspace_name'), A(vc, g, 'table_name'), A(vc, g, 'name'), A(vc, g, 'type')
        vc.check('%s/column%d-keyspace-table-name' % (name, i), gk is not None and sym.and_(gk == w[0], gt == w[1], gn == w[2]))
        vc.check('%s/column%d-type' % (name, i), gty is not None and type_matches(gty, w[3]))


def _rows_metadata(vc, pv, allow_no_metadata, prepared=False):
    """<flags><columns_count>[<paging_state>][<new_metadata_id>][<continuous page no>][<global_table_spec>?<col_spec_1>...] for a choice of the flag combination"""
    ncols = vc.choice('columns', [0, 2])
    global_spec = vc.choice('global_tables_spec', [False, True])
    # a Prepared result's metadata never carries a paging state, a new metadata id or a page number
    more = vc.choice('has_more_pages', [False, True]) if not prepared else False
    no_meta = vc.choice('no_metadata', [False, True]) if allow_no_metadata else False
    new_id = vc.choice('metadata_changed', [False, True]) if (pv in (5, 6, 0x42) and not no_meta and not prepared) else False
    cont = vc.choice('continuous_paging', [None, 'page', 'last-page']) if (pv >= 0x41 and not no_meta and not new_id and not prepared) else None
    flags = (1 if global_spec and not no_meta else 0) | (2 if more else 0) | (4 if no_meta else 0) | (8 if new_id else 0) | \
        (0x40000000 if cont else 0) | (0x80000000 if cont == 'last-page' else 0)
    lay = [s_uint(flags), s_int(ncols)]
    want = dict(paging_state=None, result_metadata_id=None, seq=None, last=None, columns=None)
    if more:
        want['paging_state'] = B(vc, 'paging_state', minlen=1)
        lay.append(s_bytes(want['paging_state']))
    if new_id:
        want['result_metadata_id'] = B(vc, 'new_metadata_id', 65535)
        lay.append(s_short_bytes(want['result_metadata_id']))
    if cont:
        want['seq'] = vc.int('continuous_page_number')
        vc.assume(cser.in_signed_range(want['seq'], 4))
        want['last'] = cont == 'last-page'
        lay.append(s_int(want['seq']))
    if not no_meta:
        cl, want['columns'] = _columns(vc, ncols, global_spec, '')
        lay += cl
    return lay, want, ncols, no_meta


def _check_rows_metadata(vc, msg, want):
    ps = A(vc, msg, 'paging_state')
    if want['paging_state'] is None:
        vc.check('metadata/no-paging-state', ps is None)
    else:
        same(vc, 'metadata/paging-state', ps, want['paging_state'])
    if want['result_metadata_id'] is not None:
        same(vc, 'metadata/new-result-metadata-id', A(vc, msg, 'result_metadata_id'), want['result_metadata_id'])
    if want['seq'] is not None:
        vc.check('metadata/continuous-page-number-and-last-flag', sym.and_(A(vc, msg, 'continuous_paging_seq') == want['seq']) and bool(A(vc, msg, 'continuous_paging_last')) == want['last'])
    else:
        vc.check('metadata/not-a-continuous-page', A(vc, msg, 'continuous_paging_seq') is None)
    if want['columns'] is not None:
        _check_columns(vc, 'metadata', A(vc, msg, 'column_metadata'), want['columns'])
    else:
        vc.check('metadata/no-column-metadata-when-skipped', A(vc, msg, 'column_metadata') is None)


def _mk_result(pv):
    @harness('C04', 'RESULT-v%#x' % pv, functions=[PR + 'ResultMessage.' + n for n in ('recv_body', 'recv', 'recv_results_rows', 'recv_results_metadata', 'recv_results_prepared', 'recv_prepared_metadata',
                                                                                       'recv_results_schema_change', 'recv_row', 'read_type')], native='contracts.native.c04:replay')
    def h(vc):
        length_mode(vc)
        from cassandra import protocol as P, cqltypes
        kind = vc.choice('kind', ['VOID', 'ROWS', 'SET_KEYSPACE', 'PREPARED', 'SCHEMA_CHANGE', 'UNKNOWN-KIND'])
        utm = {'ks1': {'addr': 'MAPPED-CLASS'}}
        result_metadata = None
        if kind == 'VOID':
            lay = [s_int(1)]
        elif kind == 'SET_KEYSPACE':
            (ks, ksb) = S(vc, 'keyspace')
            lay = [s_int(3), s_short_bytes(ksb)]
        elif kind == 'SCHEMA_CHANGE':
            target = vc.choice('target', ['KEYSPACE', 'TABLE', 'TYPE'] + (['FUNCTION', 'AGGREGATE'] if pv >= 4 else []))
            sl, swant = _schema_change_layout(vc, pv, target)
            lay = [s_int(5), sl]
        elif kind == 'UNKNOWN-KIND':
            lay = [s_int(6)]
        elif kind == 'ROWS':
            ml, mwant, ncols, no_meta = _rows_metadata(vc, pv, True)
            if no_meta:
                # the column specs come from the prepared statement (result_metadata): int and blob columns
                result_metadata = [('ks', 'tb', 'c%d' % i, t) for i, t in zip(range(ncols), (cqltypes.Int32Type, cqltypes.BytesType))]
            nrows = vc.choice('rows', [0, 2])
            cells, wrows = [], []
            v0, v1 = vc.int('row0_int'), B(vc, 'row0_cell1')
            vc.assume(cser.in_signed_range(v0, 4))
            col1 = 'blob' if no_meta else (mwant['columns'][1][3][0] if ncols == 2 else None)
            if ncols == 2 and col1 not in ('blob', 'BytesType'):
                # the second column's values: text for a varchar column, null for the collection / udt columns (their codecs are C01)
                if col1 == 'VarcharType':
                    (t1, t1b) = S(vc, 'row0_text', 2 ** 31 - 1)
                    c1, w1 = s_bytes(t1b), t1
                else:
                    c1, w1 = s_int(-1), None
            else:
                c1, w1 = s_bytes(v1), v1
            if nrows and ncols:
                cells += [s_bytes(s_int(v0)), c1, s_int(-1), s_bytes(b'')]
                wrows = [(v0, w1), (None, None if col1 not in ('blob', 'BytesType', 'VarcharType') else (b'' if col1 != 'VarcharType' else ''))]
            elif nrows:
                wrows = [(), ()]
            lay = [s_int(2)] + ml + [s_int(nrows)] + cells
        else:
            qid = B(vc, 'statement_id', 65535)
            lay = [s_int(4), s_short_bytes(qid)]
            rmid = None
            if P.ProtocolVersion.uses_prepared_metadata(pv) if False else pv in (5, 6, 0x42):
                rmid = B(vc, 'result_metadata_id', 65535)
                lay.append(s_short_bytes(rmid))
            nbind = vc.choice('bind_markers', [0, 2])
            bglobal = vc.choice('bind_global_tables_spec', [False, True])
            lay += [s_uint(1 if bglobal else 0), s_int(nbind)]
            pk = None
            if pv >= 4:
                npk = vc.choice('pk_indexes', [0, 1]) if nbind else 0
                pk = [vc.int('pk_index0')][:npk]
                for x in pk:
                    vc.assume(sym.and_(x >= 0, x <= 65535))
                lay += [s_int(npk)] + [s_short(x) for x in pk]
            bl, bwant = _columns(vc, nbind, bglobal, 'bind_')
            lay += bl
            if pv >= 2:
                ml, mwant, ncols, no_meta = _rows_metadata(vc, pv, True, prepared=True)
                lay += ml
        f = MBytesIO(cat(*lay), 0)
        n = blen(cat(*lay))
        k, msg = vc.call_catch(PR + 'ResultMessage.recv_body', f, pv, utm, result_metadata, None)
        if kind == 'UNKNOWN-KIND':
            vc.check('unknown-kind/raises', k == 'exc')
            return
        vc.check('post/decodes', k == 'ok')
        if k != 'ok':
            return
        consumed(vc, 'post', f, n)
        vc.check('post/kind', A(vc, msg, 'kind') == {'VOID': 1, 'ROWS': 2, 'SET_KEYSPACE': 3, 'PREPARED': 4, 'SCHEMA_CHANGE': 5}[kind])
        if kind == 'SET_KEYSPACE':
            vc.check('SET_KEYSPACE/new-keyspace', A(vc, msg, 'new_keyspace') == ks)
        elif kind == 'SCHEMA_CHANGE':
            _check_schema_event(vc, 'SCHEMA_CHANGE', A(vc, msg, 'schema_change_event'), swant)
        elif kind == 'ROWS':
            _check_rows_metadata(vc, msg, mwant)
            rows = A(vc, msg, 'parsed_rows')
            ok = isinstance(rows, list) and len(rows) == len(wrows) and all(isinstance(r, tuple) and len(r) == len(w) for r, w in zip(rows, wrows))
            vc.check('ROWS/one-tuple-per-row-one-value-per-column', ok)
            if ok:
                for ri, (r, w) in enumerate(zip(rows, wrows)):
                    for ci, (g, x) in enumerate(zip(r, w)):
                        nm = 'ROWS/row%d-column%d-value' % (ri, ci)
                        if x is None:
                            vc.check(nm, g is None)
                        elif isinstance(x, (bytes, SBytes)):
                            same(vc, nm, g, x)
                        else:
                            vc.check(nm, g is not None and sym.and_(g == x))
            names, types = A(vc, msg, 'column_names'), A(vc, msg, 'column_types')
            if mwant['columns'] is not None:
                vc.check('ROWS/column-names-and-types-follow-the-metadata', isinstance(names, list) and len(names) == ncols and
                         sym.and_(*[g == w[2] for g, w in zip(names, mwant['columns'])]) is not False and all(type_matches(t, w[3]) for t, w in zip(types, mwant['columns'])))
            else:
                vc.check('ROWS/column-names-and-types-from-the-prepared-statement', names == ['c0', 'c1'][:ncols] and types == [cqltypes.Int32Type, cqltypes.BytesType][:ncols])
        elif kind == 'PREPARED':
            same(vc, 'PREPARED/statement-id', A(vc, msg, 'query_id'), qid)
            if rmid is not None:
                same(vc, 'PREPARED/result-metadata-id', A(vc, msg, 'result_metadata_id'), rmid)
            else:
                vc.check('PREPARED/no-result-metadata-id-before-v5', A(vc, msg, 'result_metadata_id') is None)
            _check_columns(vc, 'PREPARED/bind', A(vc, msg, 'bind_metadata'), bwant, as_tuple=False)
            gpk = A(vc, msg, 'pk_indexes')
            if pk is None:
                vc.check('PREPARED/no-pk-indexes-before-v4', gpk is None)
            else:
                vc.check('PREPARED/pk-indexes', isinstance(gpk, list) and len(gpk) == len(pk) and sym.and_(*[g == x for g, x in zip(gpk, pk)]) is not False)
            if pv >= 2:
                if mwant['columns'] is not None:
                    _check_columns(vc, 'PREPARED/result', A(vc, msg, 'column_metadata'), mwant['columns'])
                else:
                    vc.check('PREPARED/no-result-columns-when-skipped', A(vc, msg, 'column_metadata') is None)
    h.__doc__ = ('protocol version %#x, RESULT of every kind: requires body == the specification layout of (kind, metadata flags: global table spec / has-more-pages / no-metadata / '
                 'metadata-changed / continuous page, 0 or 2 columns with symbolic names and a choice of column types, 0 or 2 rows incl. null and empty cells, statement ids, pk indexes, '
                 'bind columns, schema-change target)  ensures the message carries exactly those contents and the whole body is consumed' % pv)
    return h


for _pv in VERSIONS:
    _mk_result(_pv)


def decode_spec_encoded(tier, seed):
    from contracts.native import c04
    return c04.enumerate_responses(tier, seed)


BOUNDED = [decode_spec_encoded]
