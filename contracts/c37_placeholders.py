"""C37 - cqlengine statements bind every placeholder to its own clause's value.

The clause and statement classes build text with str.format and number placeholders with plain integer counters; the values they bind are only stored,
compared for equality / emptiness and measured with len().  Every harness below therefore runs the REAL methods (through the AST interpreter, one path per
shape) on opaque value tokens: a result established for tokens holds for all values with the same equality/emptiness pattern (parametricity; a method that
inspected a token any other way would raise and fail the obligation).  What is enumerated - and therefore bounded - is the SHAPE: which clauses, which
collection sizes (0..3), which operation keyword, which previous value, which starting context id.
"""
import itertools
import os
import re
from pyvc.engine import harness
from pyvc.interp import PyExc, exc_class

LEVEL = 'other'
TRUSTED = ['parametricity in the bound values (opaque tokens; only ==, emptiness and len are used by the code - any other use raises on a token)',
           'shapes are enumerated, not quantified: collections of 0..3 elements, 3 operation keywords, 4-5 previous values per container clause, statements of up to 2 where / 3 assignment / 1 conditional / 2 delete clauses, batches of up to 3 statements, starting ids 0 and 7',
           'E-STR: str.format with literal templates (executed natively on concrete field names and ids)',
           'rendered CQL is only read for its placeholders %(n)s and the operator pattern around them; whether the surrounding text is the CQL the user asked for is C35']
EXPLANATION = 'postconditions relating get_context_size / update_context / the rendered text of every cqlengine clause class and of Select/Insert/Update/Delete statements and BatchQuery.execute, on opaque values, for all enumerated shapes'

S = 'cassandra.cqlengine.statements.'
TIER = os.environ.get('VERIF_TIER', 'quick')
PH = re.compile(r'%\((\d+)\)s')


class Tok(object):
    """an opaque bound value"""
    def __init__(self, n):
        self.n = n

    def __repr__(self):
        return '<%s>' % self.n

    def __lt__(self, other):           # sorted() of map keys needs an order; any fixed order will do
        return self.n < other.n


A, B, C, D = Tok('a'), Tok('b'), Tok('c'), Tok('d')


def norm(v):
    """the value inside a quoter object (IN lists are wrapped in an InQuoter); interpreter-built instances keep their attributes in .attrs"""
    from pyvc.interp import SObj
    if isinstance(v, SObj):
        return v.attrs.get('value', v)
    return getattr(v, 'value', v) if type(v).__name__ in ('InQuoter', 'ValueQuoter') else v


def container_cases():
    from cassandra.cqlengine import statements as st
    out = []
    sets = [None, set(), {A}, {A, B}, {B, C, D}]
    for v, p, op in itertools.product(sets, [None, set(), {A}, {B, C}], [None, 'add', 'remove']):
        if op and (v is None or p is not None):
            continue
        out.append(('set value=%r previous=%r op=%s' % (v, p, op), lambda v=v, p=p, op=op: st.SetUpdateClause('f', None if v is None else set(v), operation=op, previous=None if p is None else set(p)),
                    dict(assign=r'"f" = %\((\d+)\)s', add=r'"f" = "f" \+ %\((\d+)\)s', remove=r'"f" = "f" - %\((\d+)\)s')))
    lists = [None, [], [A], [A, B], [B, A, C]]
    for v, p, op in itertools.product(lists, [None, [], [A], [A, B]], [None, 'append', 'prepend']):
        if op and (v is None or p is not None):
            continue
        out.append(('list value=%r previous=%r op=%s' % (v, p, op), lambda v=v, p=p, op=op: st.ListUpdateClause('f', None if v is None else list(v), operation=op, previous=None if p is None else list(p)),
                    dict(assign=r'"f" = %\((\d+)\)s(?! \+)', prepend=r'"f" = %\((\d+)\)s \+ "f"', append=r'"f" = "f" \+ %\((\d+)\)s')))
    maps = [{}, {A: 1}, {A: 1, B: 2}]
    for v, p, op in itertools.product(maps, [None, {}, {A: 1}, {A: 9, C: 3}], [None, 'update', 'remove']):
        if op and p is not None:
            continue
        out.append(('map value=%r previous=%r op=%s' % (v, p, op), lambda v=v, p=p, op=op: st.MapUpdateClause('f', dict(v), operation=op, previous=None if p is None else dict(p)),
                    dict(assign=r'"f" = %\((\d+)\)s', put=r'"f"\[%\((\d+)\)s\] = %\((\d+)\)s', remove=r'"f" = "f" - %\((\d+)\)s')))
    return out


def simple_cases():
    from cassandra.cqlengine import statements as st
    from cassandra.cqlengine import operators as ops
    return [('assignment', lambda: st.AssignmentClause('f', A)), ('conditional', lambda: st.ConditionalClause('f', A)),
            ('where =', lambda: st.WhereClause('f', ops.EqualsOperator(), A)), ('where >', lambda: st.WhereClause('f', ops.GreaterThanOperator(), A)),
            ('where IN', lambda: st.WhereClause('f', ops.InOperator(), [A, B])), ('where CONTAINS', lambda: st.WhereClause('f', ops.ContainsOperator(), A)),
            ('where token', lambda: st.WhereClause('token("f")', ops.LessThanOperator(), A, quote_field=False)), ('is not null', lambda: st.IsNotNullClause('f')),
            ('counter +', lambda: st.CounterUpdateClause('f', 5, previous=2)), ('counter -', lambda: st.CounterUpdateClause('f', 2, previous=5)), ('counter 0', lambda: st.CounterUpdateClause('f', 3, previous=3)),
            ('field delete', lambda: st.FieldDeleteClause('f')), ('map delete none', lambda: st.MapDeleteClause('f', {A: 1}, {A: 1})),
            ('map delete two', lambda: st.MapDeleteClause('f', {A: 1}, {A: 1, B: 2, C: 3})), ('map delete all', lambda: st.MapDeleteClause('f', None, {B: 2}))]


def clause_facts(vc, clause, k):
    """(size, context dict, rendered text) through the real methods after set_context_id(k)"""
    cls = type(clause)
    q = S + cls.__name__ + '.'
    vc.call(q + 'set_context_id', clause, k)
    n = vc.call(q + 'get_context_size', clause)
    ctx = {}
    vc.call(q + 'update_context', clause, ctx)
    text = vc.call(q + '__unicode__', clause)
    return n, ctx, text


def check_clause(vc, tag, clause, k):
    n, ctx, text = clause_facts(vc, clause, k)
    ids = [int(x) for x in PH.findall(text)]
    want = list(range(k, k + n))
    vc.check(tag + '/size-is-a-plain-count', isinstance(n, int) and n >= 0)
    vc.check(tag + '/bound-keys-are-exactly-the-ids-it-was-given', sorted(ctx) == sorted(str(i) for i in want))
    vc.check(tag + '/rendered-placeholders-are-exactly-those-ids-each-once', sorted(ids) == want)
    return n, ctx, text


@harness('C37', 'clauses', functions=[S + c + '.' + m for c in ('BaseClause', 'WhereClause', 'IsNotNullClause', 'AssignmentClause', 'SetUpdateClause', 'ListUpdateClause', 'MapUpdateClause',
                                                              'CounterUpdateClause', 'FieldDeleteClause', 'MapDeleteClause')
                                        for m in ('get_context_size', 'update_context', 'set_context_id', '__unicode__')
                                        if not (c in ('BaseClause',) and m == '__unicode__') and not (c in ('AssignmentClause', 'CounterUpdateClause', 'FieldDeleteClause', 'MapDeleteClause', 'IsNotNullClause',
                                                                                                            'SetUpdateClause', 'ListUpdateClause', 'MapUpdateClause') and m == 'set_context_id')],
         native='contracts.native.c37:replay')
def clauses(vc):
    """for every clause shape and starting id k in {0, 7}: ensures get_context_size() == |keys written by update_context| == |placeholders rendered|, the ids are exactly k .. k+size-1,
    and every placeholder is bound to the operand of the operation rendered around it (set: assignment / + additions / - removals; list: assignment / prepend / append;
    map: key and value of each put, removals; counter: |delta| with the sign rendered; IN: the whole list)"""
    from cassandra.cqlengine import statements as st
    simple, cont = simple_cases(), container_cases()
    label = vc.choice('clause', [c[0] for c in simple] + [c[0] for c in cont])
    k = vc.choice('first_context_id', [0, 7])
    ent = [c for c in simple + cont if c[0] == label][0]
    clause = ent[1]()
    n, ctx, text = check_clause(vc, 'clause', clause, k)
    if label == 'where IN':
        vc.must_fail('selfcheck/IN-binds-one-value-per-list-element', n == 2)
    if len(ent) > 2:
        pats = ent[2]
        roles = {}
        for frag in text.split(', ') if text else []:
            hit = [(r, re.fullmatch(p, frag)) for r, p in pats.items() if re.fullmatch(p, frag)]
            vc.check('container/every-rendered-operation-is-one-of-the-known-forms', len(hit) >= 1)
            if hit:
                r, m = hit[-1] if len(hit) > 1 and hit[-1][0] != 'assign' else hit[0]
                roles.setdefault(r, []).append([int(x) for x in m.groups()])
        v, p, op = clause.value, clause.previous, clause._operation
        if isinstance(clause, st.SetUpdateClause):
            for r, lst in roles.items():
                got = ctx.get(str(lst[0][0]))
                if r == 'add':
                    vc.check('set/plus-is-bound-to-exactly-the-added-elements', got == (v if op == 'add' else (v - p)) and got is not None)
                elif r == 'remove':
                    vc.check('set/minus-is-bound-to-exactly-the-removed-elements', got == (v if op == 'remove' else (p - v)))
                else:
                    vc.check('set/assignment-is-bound-to-the-whole-value', got == (v if v is not None else set()) or (v is None and got == set()))
            if op is None and v is not None and p is not None:
                vc.check('set/partial-update-reaches-the-new-value', (p | (ctx.get(str(roles['add'][0][0])) if 'add' in roles else set())) - (ctx.get(str(roles['remove'][0][0])) if 'remove' in roles else set()) == v
                         if 'assign' not in roles else ctx.get(str(roles['assign'][0][0])) == v)
        elif isinstance(clause, st.ListUpdateClause):
            pre = ctx.get(str(roles['prepend'][0][0])) if 'prepend' in roles else []
            app = ctx.get(str(roles['append'][0][0])) if 'append' in roles else []
            if op is None and v is not None and v != p:
                vc.check('list/rendered-operations-reach-the-new-value', (ctx.get(str(roles['assign'][0][0])) == v) if 'assign' in roles else (list(pre) + list(p) + list(app) == v))
            elif op == 'append':
                vc.check('list/append-operand', 'append' in roles and app == v)
            elif op == 'prepend':
                vc.check('list/prepend-operand', 'prepend' in roles and pre == v)
        elif isinstance(clause, st.MapUpdateClause):
            if 'put' in roles:
                puts = {ctx[str(a)]: ctx[str(b)] for a, b in roles['put']}
                vc.check('map/each-put-binds-a-key-then-its-own-value', all(clause.value.get(kk) == vv for kk, vv in puts.items()) and len(puts) == len(roles['put']))
                if op is None:
                    vc.check('map/puts-are-exactly-the-new-or-changed-keys', set(puts) == {kk for kk, vv in v.items() if p is None or p.get(kk) != vv})
            if 'remove' in roles:
                vc.check('map/removal-operand', ctx[str(roles['remove'][0][0])] == set(v.keys()))
    elif label.startswith('counter'):
        delta = clause.value - clause.previous
        vc.check('counter/magnitude-bound-sign-rendered', ctx[str(k)] == abs(delta) and ('"f" = "f" %s %%(%d)s' % ('-' if delta < 0 else '+', k)) == text)
    elif label == 'where IN':
        vc.check('where-in/bound-to-the-whole-list', list(norm(ctx[str(k)])) == [A, B])
    elif label.startswith('map delete'):
        removed = sorted(kk for kk in clause.previous if kk not in clause.value)
        vc.check('map-delete/one-placeholder-per-removed-key-in-order', [ctx[str(k + i)] for i in range(n)] == removed and text == ', '.join('"f"[%%(%d)s]' % (k + i) for i in range(n)))
    elif n == 1:
        vc.check('simple/bound-to-its-value', norm(ctx[str(k)]) is A)


def _stmt_menu():
    from cassandra.cqlengine import statements as st
    from cassandra.cqlengine import operators as ops
    W = [lambda: st.WhereClause('k1', ops.EqualsOperator(), A), lambda: st.WhereClause('k2', ops.InOperator(), [B, C])]
    ASG = [lambda: st.AssignmentClause('v', D), lambda: st.SetUpdateClause('s', set(), operation='add'), lambda: st.SetUpdateClause('s', {A, B}, previous={B, C}),
           lambda: st.ListUpdateClause('l', [A, B, C], previous=[B]), lambda: st.MapUpdateClause('m', {A: 1, B: 2}, previous={A: 1}), lambda: st.CounterUpdateClause('c', 1, previous=4),
           lambda: st.ListUpdateClause('l', [], operation='append')]
    COND = [lambda: st.ConditionalClause('v', Tok('expected'))]
    DEL = [lambda: st.FieldDeleteClause('v'), lambda: st.MapDeleteClause('m', {A: 1}, {A: 1, B: 2, C: 3})]
    return W, ASG, COND, DEL


def _build(kind, nw, asg, nc, dels):
    from cassandra.cqlengine import statements as st
    W, ASG, COND, DEL = _stmt_menu()
    where = [w() for w in W[:nw]]
    if kind == 'SELECT':
        return st.SelectStatement('t', where=where, limit=10)
    if kind == 'INSERT':
        return st.InsertStatement('t', assignments=[st.AssignmentClause('k1', A), st.AssignmentClause('v', D)][:max(1, len(asg))], ttl=60)
    if kind == 'UPDATE':
        return st.UpdateStatement('t', assignments=[ASG[i]() for i in asg], where=where, conditionals=[c() for c in COND[:nc]], ttl=5)
    return st.DeleteStatement('t', fields=[DEL[i]() for i in dels], where=where, conditionals=[c() for c in COND[:nc]])


def _clauses_of(stmt):
    out = list(stmt.where_clauses) + list(getattr(stmt, 'assignments', [])) + list(getattr(stmt, 'fields', [])) + list(stmt.conditionals)
    return out


def check_statement(vc, tag, stmt, k, after_renumber):
    cls = type(stmt).__name__
    text = vc.call(S + cls + '.__unicode__', stmt)
    ctx = vc.call(S + cls + '.get_context', stmt)
    ids = [int(x) for x in PH.findall(text)]
    vc.check(tag + '/no-placeholder-id-used-twice', len(ids) == len(set(ids)))
    vc.check(tag + '/exactly-one-bound-value-per-placeholder', sorted(str(i) for i in ids) == sorted(ctx))
    if after_renumber:
        vc.check(tag + '/ids-are-consecutive-from-the-requested-start', sorted(ids) == list(range(k, k + len(ids))))
    vc.check(tag + '/get_context_size-is-the-number-of-bound-values', vc.call(S + 'BaseCQLStatement.get_context_size', stmt) == len(ctx))
    # each clause's own ids carry that clause's own values
    for c in _clauses_of(stmt):
        own = {}
        c.update_context(own)
        ctext = str(c)
        vc.check(tag + '/each-clause-renders-and-binds-only-its-own-ids', set(PH.findall(ctext)) == set(own) and all(norm(ctx.get(i)) is norm(v) or norm(ctx.get(i)) == norm(v) for i, v in own.items()) and
                 (not ctext or ctext in text or (cls == 'InsertStatement' and '"%s"' % c.field in text and all('%%(%s)s' % i in text for i in own))))
    return text, ctx


@harness('C37', 'statements', functions=[S + c + '.' + m for c, ms in (('BaseCQLStatement', ('_add_where_clause', 'add_conditional_clause', 'get_context', 'get_context_size', 'update_context_id')),
                                                                      ('AssignmentStatement', ('update_context_id', '_add_assignment_clause', 'get_context')),
                                                                      ('SelectStatement', ('__unicode__',)), ('InsertStatement', ('__unicode__',)),
                                                                      ('UpdateStatement', ('__unicode__', 'get_context', 'update_context_id')),
                                                                      ('DeleteStatement', ('__unicode__', 'get_context', 'update_context_id', 'add_field'))) for m in ms],
         native='contracts.native.c37:replay')
def statements(vc):
    """for SELECT / INSERT / UPDATE / DELETE built from 0..2 where clauses (=, IN), every subset of up to 3 of 7 assignment clauses (incl. empty-collection operands), 0..1 IF condition,
    delete fields / map-key deletes: ensures, as constructed and again after update_context_id(k) for k in {0, 7}: no placeholder id occurs twice, the bound values are exactly one per
    placeholder, ids are consecutive from k, each clause renders and binds only its own ids with its own values, and every requested clause appears in the text"""
    kind = vc.choice('statement', ['SELECT', 'INSERT', 'UPDATE', 'DELETE'])
    nw = vc.choice('where_clauses', [0, 1, 2]) if vc is None or True else 0
    asg, dels, nc = (), (), 0
    if kind == 'UPDATE':
        combos = [c for r in (1, 2, 3) for c in itertools.combinations(range(7), r)]
        if TIER == 'quick':
            combos = [c for c in combos if len(c) <= 2] + [(1, 0, 3), (2, 4, 5), (6, 1, 0)]
        asg = vc.choice('assignments', combos)
    if kind == 'INSERT':
        asg = vc.choice('assignments', [(0,), (0, 1)])
    if kind == 'DELETE':
        dels = vc.choice('deleted', [(), (0,), (1,), (0, 1), (1, 0)])
    if kind in ('UPDATE', 'DELETE'):
        nc = vc.choice('conditions', [0, 1])
    stmt = _build(kind, nw, asg, nc, dels)
    check_statement(vc, 'as-built', stmt, 0, False)
    k = vc.choice('renumber_from', [0, 7])
    vc.call(S + type(stmt).__name__ + '.update_context_id', stmt, k)
    text, ctx = check_statement(vc, 'renumbered', stmt, k, True)
    if kind == 'INSERT':
        nw = 0          # an INSERT has no WHERE part (none is built)
    want_parts = (['WHERE'] if nw else []) + (['IF '] if nc else [])
    vc.check('renumbered/where-and-if-parts-rendered-iff-requested', all(w in text for w in want_parts) and ('WHERE' in text) == bool(nw) and (' IF "' in text) == bool(nc))


@harness('C37', 'batch', functions=['cassandra.cqlengine.query.BatchQuery.execute'], native='contracts.native.c37:replay')
def batch(vc):
    """for batches of 1..3 statements drawn from UPDATE / conditional UPDATE / conditional DELETE / INSERT / DELETE with map keys: ensures the batch text and the parameter map handed to
    the session have one bound value per placeholder, no id shared between statements, and each statement's placeholders carry that statement's own values"""
    from cassandra.cqlengine import query as Qm
    from cassandra.cqlengine import statements as st
    from cassandra.cqlengine import operators as ops
    menu = {
        'update': lambda t: st.UpdateStatement('t', assignments=[st.AssignmentClause('v', Tok(t + '-v'))], where=[st.WhereClause('k', ops.EqualsOperator(), Tok(t + '-k'))]),
        'cond-update': lambda t: st.UpdateStatement('t', assignments=[st.AssignmentClause('v', Tok(t + '-v'))], where=[st.WhereClause('k', ops.EqualsOperator(), Tok(t + '-k'))],
                                                    conditionals=[st.ConditionalClause('v', Tok(t + '-expected'))]),
        'cond-delete': lambda t: st.DeleteStatement('t', where=[st.WhereClause('k', ops.EqualsOperator(), Tok(t + '-k'))], conditionals=[st.ConditionalClause('v', Tok(t + '-expected'))]),
        'insert': lambda t: st.InsertStatement('t', assignments=[st.AssignmentClause('k', Tok(t + '-k')), st.AssignmentClause('v', Tok(t + '-v'))]),
        'map-delete': lambda t: st.DeleteStatement('t', fields=[st.MapDeleteClause('m', {}, {Tok(t + '-key1'): 1, Tok(t + '-key2'): 2})], where=[st.WhereClause('k', ops.EqualsOperator(), Tok(t + '-k'))]),
    }
    n = vc.choice('statements', [1, 2, 3])
    kinds = [vc.choice('statement%d' % i, sorted(menu)) for i in range(n)]
    stmts = [menu[kd]('s%d' % i) for i, kd in enumerate(kinds)]
    sent = {}

    class Conn(object):
        @staticmethod
        def execute(q, params, *a, **kw):
            sent['q'], sent['p'] = q, dict(params)
            return 'RESULT'
    b = Qm.BatchQuery()
    for s_ in stmts:
        b.add_query(s_)
    vc.stub(Qm.check_applied, lambda r: None)
    import cassandra.cqlengine.query as qmod
    old = qmod.conn
    qmod.conn = Conn
    try:
        vc.call('cassandra.cqlengine.query.BatchQuery.execute', b)
    finally:
        qmod.conn = old
    ok = 'q' in sent
    vc.check('batch/handed-to-the-session', ok)
    if not ok:
        return
    ids = PH.findall(sent['q'])
    vc.check('batch/no-placeholder-id-shared-between-statements', len(ids) == len(set(ids)))
    vc.check('batch/one-bound-value-per-placeholder', sorted(ids) == sorted(sent['p']))
    lines = [ln for ln in sent['q'].split('\n') if ln.startswith('  ')]
    vc.check('batch/one-line-per-statement-in-order', len(lines) == n)
    for i, ln in enumerate(lines[:n]):
        vals = [sent['p'][x] for x in PH.findall(ln)]
        names = [getattr(norm(v), 'n', '?') for v in vals]
        vc.check('batch/each-statements-placeholders-carry-its-own-values', all(str(nm).startswith('s%d-' % i) for nm in names) and len(vals) >= 1)
        if 'cond' in kinds[i]:
            m = re.search(r'IF "v" = %\((\d+)\)s', ln)
            vc.check('batch/if-condition-bound-to-the-expected-value', m is not None and getattr(norm(sent['p'][m.group(1)]), 'n', None) == 's%d-expected' % i)


def queryset_and_instance_statements(tier, seed):
    from contracts.native import c37
    return c37.querysets(tier, seed)


BOUNDED = [queryset_and_instance_statements]
