"""C36 - cqlengine column values are stored as the core driver would store them."""
import os
import datetime as _dt
import z3
from pyvc.engine import harness
from pyvc import sym
from pyvc.sym import SInt, SReal
from pyvc.interp import SObj, PyExc, exc_class, get_attr
from spec import cser

LEVEL = 'other'
TRUSTED = ['E-DATETIME (stubbed): for datetimes a and b, a - b is a timedelta whose (days, seconds, microseconds) is the normalised difference of their wall-clock values when both are naive or '
           'share one tzinfo object (Python ignores the offsets then), astimezone(utc) of an aware datetime is the same instant on the UTC wall clock, utcoffset(x) may differ from instant to instant',
           'the oracle for timestamps is the exact instant in whole milliseconds, sub-millisecond digits dropped toward zero (what cqltypes.DateType.serialize encodes, C02)',
           'deductive part: DateTime (naive and aware, any instant, any pair of zone offsets at the value and at the epoch), Date, Integer family; every other column type is compared with the real '
           'cqltypes serializers on enumerated / random values only (bounded stand-in)']
EXPLANATION = 'integer postconditions on the real cqlengine DateTime.to_database over a symbolic instant and symbolic zone offsets, Date.to_database, Integer/VarInt.to_database; bounded comparison of every column type with the core serializers'

C = 'cassandra.cqlengine.columns.'
TIER = os.environ.get('VERIF_TIER', 'quick')


class _Delta(object):
    """a timedelta with symbolic normalised components"""
    def __init__(self, vc, total_us):
        self.days, self.seconds, self.microseconds = vc.int('delta_days'), vc.int('delta_seconds'), vc.int('delta_microseconds')
        vc.assume(sym.and_(self.seconds >= 0, self.seconds < 86400, self.microseconds >= 0, self.microseconds < 10 ** 6,
                           (self.days * 86400 + self.seconds) * 10 ** 6 + self.microseconds == total_us))
        self._total = total_us

    def total_seconds(self):
        return SReal(z3.ToReal(sym.as_int_term(self._total)) / 1000000)


class _TZ(_dt.tzinfo):
    """a zone whose offset depends on the instant asked about: off_value seconds at the value, off_epoch seconds at 1970-01-01"""
    def __init__(self, vc, off_value, off_epoch):
        self.vc, self.off_value, self.off_epoch = vc, off_value, off_epoch

    def utcoffset(self, d):
        off = self.off_value if isinstance(d, _Stamp) else self.off_epoch
        return _Delta(self.vc, off * 10 ** 6)

    def __deepcopy__(self, memo):
        return self


class _Stamp(_dt.datetime):
    """a datetime whose instant (utc_us, exact microseconds since 1970-01-01T00:00:00Z) is symbolic; naive values are UTC wall clock"""
    def __new__(cls, vc, utc_us, tz=None, wall_us=None):
        self = _dt.datetime.__new__(cls, 2000, 1, 1)
        self.vc, self.utc_us, self.tz = vc, utc_us, tz
        self.wall_us = wall_us if wall_us is not None else utc_us
        return self

    tzinfo = property(lambda self: self.tz)

    def astimezone(self, tz=None):
        if tz is _dt.timezone.utc:
            return _Stamp(self.vc, self.utc_us, _dt.timezone.utc, self.utc_us)
        raise PyExc(NotImplementedError('astimezone to a zone other than UTC'))

    def replace(self, **kw):
        if set(kw) == {'tzinfo'} and kw['tzinfo'] is None:
            return _Stamp(self.vc, self.wall_us, None, self.wall_us)      # a naive value reads its wall clock as UTC
        raise PyExc(NotImplementedError('replace(%r)' % kw))

    def __sub__(self, other):
        # `other` is 1970-01-01 00:00:00 built by the code under test: naive, or carrying the value's own tzinfo object
        if not (isinstance(other, _dt.datetime) and (other.year, other.month, other.day, other.hour, other.minute, other.second, other.microsecond) == (1970, 1, 1, 0, 0, 0, 0)):
            raise PyExc(NotImplementedError('subtraction of something other than the epoch'))
        o_tz = other.tzinfo
        if (self.tz is None) != (o_tz is None):
            raise PyExc(TypeError("can't subtract offset-naive and offset-aware datetimes"))
        if self.tz is None or o_tz is self.tz:
            return _Delta(self.vc, self.wall_us)                       # offsets ignored: difference of wall clocks
        raise PyExc(NotImplementedError('aware subtraction across different tzinfo objects'))

    def __deepcopy__(self, memo):
        return self


@harness('C36', 'DateTime.to_database', functions=[C + 'DateTime.to_database', C + 'Column.to_database'], native='contracts.native.c36:replay')
def datetime_column(vc):
    """for every instant (exact microseconds since the epoch, either sign) given as a naive (UTC) datetime or as an aware datetime in a zone whose offset at the value (off_v) may differ
    from its offset at the epoch (off_e): ensures to_database == the instant's whole milliseconds (sub-millisecond digits dropped toward zero) - independent of both offsets"""
    from cassandra.cqlengine import columns
    us = vc.int('instant_microseconds_utc')
    aware = vc.choice('datetime', ['naive', 'aware'])
    col = vc.obj(columns.DateTime, column_name='ts', default=None, required=False)
    if aware == 'aware':
        off_v, off_e = vc.int('offset_at_value_s'), vc.int('offset_at_epoch_s')
        vc.assume(sym.and_(off_v > -86400, off_v < 86400, off_e > -86400, off_e < 86400))
        tz = _TZ(vc, off_v, off_e)
        value = _Stamp(vc, us, tz, us + off_v * 10 ** 6)
    else:
        value = _Stamp(vc, us)
    vc.stub(C + 'Column.to_database', lambda self, v: v)
    k, r = vc.call_catch(C + 'DateTime.to_database', col, value)
    vc.check('post/returns', k == 'ok')
    if k != 'ok':
        return
    want = sym.ite(us >= 0, us // 1000, -((-us) // 1000))
    got = r if not isinstance(r, SReal) else None
    vc.check('post/an-integer-number-of-milliseconds', isinstance(r, (int, SInt)))
    if isinstance(r, (int, SInt)):
        vc.check('post/exact-millisecond-instant-whatever-the-zone-offsets', sym.lift(r) == want)
        if aware == 'aware':
            vc.must_fail('selfcheck/always-zero', sym.lift(r) == 0)


@harness('C36', 'Date-and-integers', functions=[C + 'Date.to_database', C + 'Integer.to_database', C + 'Integer.validate', C + 'VarInt.to_database', C + 'VarInt.validate'], native='contracts.native.c36:replay')
def date_and_ints(vc):
    """ensures Date.to_database(Date(d)) == d + 2^31 (what SimpleDateType puts on the wire as uint32) for every day count, None stays None; Integer / BigInt / VarInt.to_database(n) == n for
    every integer n"""
    from cassandra.cqlengine import columns
    from cassandra import util
    d = vc.int('days')
    col = vc.obj(columns.Date, column_name='d')
    r = vc.call(C + 'Date.to_database', col, vc.obj(util.Date, days_from_epoch=d))
    vc.check('date/days-offset-by-2^31', sym.lift(r) == d + (1 << 31))
    vc.check('date/null', vc.call(C + 'Date.to_database', col, None) is None)
    n = vc.int('n')
    for cls in (columns.Integer, columns.BigInt, columns.VarInt):
        c = vc.obj(cls, column_name='n', default=None, required=False)
        vc.stub(C + 'Column.validate', lambda self, v: v)
        r = vc.call(C + cls.__name__ + '.to_database', c, n) if 'to_database' in cls.__dict__ else vc.call(C + 'Integer.to_database', c, n)
        vc.check('%s/identity-on-integers' % cls.__name__, sym.lift(r) == n)


@harness('C36', 'Decimal', functions=[C + 'Decimal.validate', C + 'Decimal.to_database'], native='contracts.native.c36:replay')
def decimal_column(vc):
    """for decimals of 1..40 significant digits (beyond the 28 of the default arithmetic context), given as Decimal, str or int: ensures to_database returns exactly that decimal (same sign,
    digits and exponent) - what cqltypes.DecimalType.serialize then encodes digit for digit; a float is taken at its repr"""
    import decimal
    from cassandra.cqlengine import columns
    text = vc.choice('value', ['0', '-1.50', '1E+20', '1.2345678901234567890123456789012345', '-0.' + '1234567890' * 4, str(10 ** 30 + 1), '98765432109876543210987654321098765.4321'])
    form = vc.choice('given_as', ['Decimal', 'str', 'int-if-integral'])
    want = decimal.Decimal(text)
    v = want if form == 'Decimal' else (text if form == 'str' else (int(want) if want == want.to_integral_value() and 'E' not in text and '.' not in text else None))
    if v is None:
        return
    col = vc.obj(columns.Decimal, column_name='d', default=None, required=False)
    vc.stub(C + 'Column.validate', lambda self, x: x)
    r = vc.call(C + 'Decimal.to_database', col, v)
    vc.check('decimal/exactly-the-given-digits', isinstance(r, decimal.Decimal) and r.as_tuple() == (want if form != 'int-if-integral' else decimal.Decimal(int(want))).as_tuple())
    f = vc.call(C + 'Decimal.to_database', col, 0.1)
    vc.check('decimal/float-taken-at-its-repr', f == decimal.Decimal('0.1'))


def columns_versus_core(tier, seed):
    from contracts.native import c36
    return c36.columns_vs_core(tier, seed)


BOUNDED = [columns_versus_core]
