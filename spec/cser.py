"""Spec functions for Cassandra's serializers, written from Cassandra's sources (not from the driver).

Polymorphic: on pyvc.sym values they build z3 terms, on Python ints/bytes they compute concretely
(the concrete side is what native replays and bounded stand-ins use; no z3 import in that case).

References (org.apache.cassandra.serializers / utils):
  Int32Serializer, LongSerializer, ShortSerializer, ByteSerializer, BooleanSerializer: big-endian two's complement
  SimpleDateSerializer: unsigned 32-bit, days since epoch shifted by 2^31
  TimeSerializer: 64-bit nanoseconds since midnight, valid range [0, 86_399_999_999_999]
  IntegerSerializer: java.math.BigInteger.toByteArray() - minimal two's-complement, big-endian
  DecimalSerializer: int32 scale ++ BigInteger unscaled value
  DurationSerializer: three VIntCoding.writeVInt (zig-zag) values: months(int32) days(int32) nanoseconds(int64)
  VIntCoding.writeUnsignedVInt: first byte carries (number of extra bytes) leading 1 bits
  CollectionSerializer.pack (v3+): int32 count, then per element int32 length ++ bytes (length -1 = null)
"""


def _sym(*xs):
    return any(type(x).__module__.endswith('pyvc.sym') for x in xs)


def be_signed(x, width):
    if _sym(x):
        from pyvc import sym
        return sym.SBytes(sym.int_to_bytes_be(sym.as_int_term(x), width, True))
    return int(x).to_bytes(width, 'big', signed=True)


def be_unsigned(x, width):
    if _sym(x):
        from pyvc import sym
        return sym.SBytes(sym.int_to_bytes_be(sym.as_int_term(x), width, False))
    return int(x).to_bytes(width, 'big', signed=False)


def in_signed_range(x, width):
    lo, hi = -(1 << (8 * width - 1)), (1 << (8 * width - 1)) - 1
    from pyvc.logic import and_
    return and_(x >= lo, x <= hi)


def in_unsigned_range(x, width):
    from pyvc.logic import and_
    return and_(x >= 0, x <= (1 << (8 * width)) - 1)


TIME_MAX_NS = 86400 * 10 ** 9 - 1
DATE_OFFSET = 1 << 31


def zigzag64(n):
    """VIntCoding.encodeZigZag64 on a Java long: (n << 1) ^ (n >> 63), as an unsigned 64-bit value."""
    if _sym(n):
        from pyvc import sym
        return sym.ite(n >= 0, 2 * n, -2 * n - 1)
    return 2 * n if n >= 0 else -2 * n - 1


def unsigned_vint_extra_bytes(v):
    """Number of extra bytes VIntCoding.writeUnsignedVInt uses for an unsigned 64-bit value."""
    if _sym(v):
        from pyvc import sym
        r = 8
        for k in range(7, -1, -1):
            r = sym.ite(v < (1 << (7 * (k + 1))), k, r)
        return r
    for k in range(8):
        if v < (1 << (7 * (k + 1))):
            return k
    return 8


def unsigned_vint(v, extra):
    """Bytes of writeUnsignedVInt(v) given its (concrete) number of extra bytes."""
    first_mask = (0xff << (8 - extra)) & 0xff
    if _sym(v):
        from pyvc import sym
        import z3
        vt = sym.as_int_term(v)
        if extra == 8:
            first = z3.IntVal(0xff)
        else:
            first = z3.IntVal(first_mask) + sym._div_const(vt, 1 << (8 * extra))
        units = [z3.Unit(first)] + [z3.Unit(sym._div_const(vt, 1 << (8 * k)) % 256) for k in range(extra - 1, -1, -1)]
        return sym.SBytes(units[0] if len(units) == 1 else z3.Concat(*units))
    first = 0xff if extra == 8 else (first_mask | (v >> (8 * extra)))
    return bytes([first]) + (v & ((1 << (8 * extra)) - 1)).to_bytes(extra, 'big')


def vint(n):
    """Concrete VIntCoding.writeVInt(n) for a Java long n."""
    z = zigzag64(n)
    return unsigned_vint(z, unsigned_vint_extra_bytes(z))


def biginteger_bytes(x):
    """Concrete java.math.BigInteger(x).toByteArray()."""
    n = (x.bit_length() if x >= 0 else (-x - 1).bit_length()) // 8 + 1
    return x.to_bytes(n, 'big', signed=True)


def decimal_bytes(unscaled, scale):
    return be_signed(scale, 4) + biginteger_bytes(unscaled)


def collection_v3(elements):
    """Concrete CollectionSerializer.pack for already-encoded elements (None = null)."""
    out = be_signed(len(elements), 4)
    for e in elements:
        out += be_signed(-1, 4) if e is None else be_signed(len(e), 4) + e
    return out
