"""Cassandra's MurmurHash.hash3_x64_128 (org.apache.cassandra.utils.MurmurHash), transcribed from the Java source.

Two renderings of the same text: `hash3_x64_128_h1` on Python ints (concrete oracle for bounded checks/replays) and the
round / tail / finalisation functions on z3 64-bit vectors (oracle for the deductive obligations).  Cassandra's variant
sign-extends each tail byte ((long) key.get(i)) before shifting - reproduced here.
Token: Murmur3Partitioner uses h1, with Long.MIN_VALUE normalised to Long.MAX_VALUE.
"""
M64 = (1 << 64) - 1
C1 = 0x87c37b91114253d5
C2 = 0x4cf5ad432745937f


def _rotl(x, r):
    return ((x << r) | (x >> (64 - r))) & M64


def _fmix(k):
    k ^= k >> 33
    k = (k * 0xff51afd7ed558ccd) & M64
    k ^= k >> 33
    k = (k * 0xc4ceb9fe1a85ec53) & M64
    k ^= k >> 33
    return k


def _signed(x):
    return x - (1 << 64) if x >= (1 << 63) else x


def hash3_x64_128_h1(data, seed=0):
    n = len(data)
    nblocks = n >> 4
    h1 = h2 = seed & M64
    for i in range(nblocks):
        k1 = int.from_bytes(data[16 * i:16 * i + 8], 'little')
        k2 = int.from_bytes(data[16 * i + 8:16 * i + 16], 'little')
        k1 = (k1 * C1) & M64; k1 = _rotl(k1, 31); k1 = (k1 * C2) & M64; h1 ^= k1
        h1 = _rotl(h1, 27); h1 = (h1 + h2) & M64; h1 = (h1 * 5 + 0x52dce729) & M64
        k2 = (k2 * C2) & M64; k2 = _rotl(k2, 33); k2 = (k2 * C1) & M64; h2 ^= k2
        h2 = _rotl(h2, 31); h2 = (h2 + h1) & M64; h2 = (h2 * 5 + 0x38495ab5) & M64
    tail = data[16 * nblocks:]
    k1 = k2 = 0
    sb = lambda b: (b - 256 if b >= 128 else b) & M64      # (long) signed byte, as 64-bit pattern
    t = len(tail)
    for j in range(t - 1, 7, -1):
        k2 ^= (sb(tail[j]) << ((j - 8) * 8)) & M64
    if t > 8:
        k2 = (k2 * C2) & M64; k2 = _rotl(k2, 33); k2 = (k2 * C1) & M64; h2 ^= k2
    for j in range(min(t, 8) - 1, -1, -1):
        k1 ^= (sb(tail[j]) << (j * 8)) & M64
    if t > 0:
        k1 = (k1 * C1) & M64; k1 = _rotl(k1, 31); k1 = (k1 * C2) & M64; h1 ^= k1
    h1 ^= n; h2 ^= n
    h1 = (h1 + h2) & M64; h2 = (h2 + h1) & M64
    h1 = _fmix(h1); h2 = _fmix(h2)
    h1 = (h1 + h2) & M64
    return _signed(h1)


def murmur3_token(data):
    h = hash3_x64_128_h1(data)
    return (1 << 63) - 1 if h == -(1 << 63) else h


# --- z3 renderings ------------------------------------------------------------------

def z_round(h1, h2, k1, k2):
    import z3
    c1, c2 = z3.BitVecVal(C1, 64), z3.BitVecVal(C2, 64)
    k1 = k1 * c1; k1 = z3.RotateLeft(k1, 31); k1 = k1 * c2; h1 = h1 ^ k1
    h1 = z3.RotateLeft(h1, 27); h1 = h1 + h2; h1 = h1 * 5 + z3.BitVecVal(0x52dce729, 64)
    k2 = k2 * c2; k2 = z3.RotateLeft(k2, 33); k2 = k2 * c1; h2 = h2 ^ k2
    h2 = z3.RotateLeft(h2, 31); h2 = h2 + h1; h2 = h2 * 5 + z3.BitVecVal(0x38495ab5, 64)
    return h1, h2


def z_tail_and_final(h1, h2, tail_bytes, total_len):
    """tail_bytes: list of 8-bit vectors (0..15 of them); total_len: 64-bit vector.  Returns h1 (64-bit vector)."""
    import z3
    c1, c2 = z3.BitVecVal(C1, 64), z3.BitVecVal(C2, 64)
    t = len(tail_bytes)
    sx = [z3.SignExt(56, b) for b in tail_bytes]
    k1 = k2 = z3.BitVecVal(0, 64)
    for j in range(t - 1, 7, -1):
        k2 = k2 ^ (sx[j] << ((j - 8) * 8))
    if t > 8:
        k2 = k2 * c2; k2 = z3.RotateLeft(k2, 33); k2 = k2 * c1; h2 = h2 ^ k2
    for j in range(min(t, 8) - 1, -1, -1):
        k1 = k1 ^ (sx[j] << (j * 8))
    if t > 0:
        k1 = k1 * c1; k1 = z3.RotateLeft(k1, 31); k1 = k1 * c2; h1 = h1 ^ k1
    h1 = h1 ^ total_len; h2 = h2 ^ total_len
    h1 = h1 + h2; h2 = h2 + h1
    h1 = z_fmix(h1); h2 = z_fmix(h2)
    return h1 + h2


def z_fmix(k):
    import z3
    k = k ^ z3.LShR(k, 33)
    k = k * z3.BitVecVal(0xff51afd7ed558ccd, 64)
    k = k ^ z3.LShR(k, 33)
    k = k * z3.BitVecVal(0xc4ceb9fe1a85ec53, 64)
    k = k ^ z3.LShR(k, 33)
    return k
