"""Native protocol, written from native_protocol_v1..v5.spec and the DSE protocol extensions - independent of cassandra/protocol.py.

parse_request(frame)  : strict parser of a request frame -> dict of fields (raises SpecError on any malformation / leftover byte)
encode_response(...)  : encoder of response bodies (used as the generator for C04)
Only the stdlib is used; nothing is imported from the driver."""
import struct

DSE_V1, DSE_V2 = 0x41, 0x42
VERSIONS = (1, 2, 3, 4, 5, 6, DSE_V1, DSE_V2)


class SpecError(Exception):
    pass


def int_flags(pv):          # v5+: QUERY/EXECUTE/BATCH flags are an [int]
    return pv >= 5


def has_keyspace(pv):       # v5, v6, DSE_V2: per-request keyspace and PREPARE flags
    return pv >= 5 and pv != DSE_V1


def has_result_metadata_id(pv):
    return pv >= 5 and pv != DSE_V1


def continuous_paging(pv):
    return pv >= DSE_V1


class R(object):
    def __init__(self, b):
        self.b, self.p = bytes(b), 0

    def take(self, n):
        if n < 0 or self.p + n > len(self.b):
            raise SpecError('truncated: need %d bytes at %d of %d' % (n, self.p, len(self.b)))
        x = self.b[self.p:self.p + n]
        self.p += n
        return x

    def byte(self):
        return self.take(1)[0]

    def short(self):
        return struct.unpack('>H', self.take(2))[0]

    def int(self):
        return struct.unpack('>i', self.take(4))[0]

    def uint(self):
        return struct.unpack('>I', self.take(4))[0]

    def long(self):
        return struct.unpack('>q', self.take(8))[0]

    def _utf8(self, b):
        try:
            return b.decode('utf8')
        except UnicodeDecodeError as e:
            raise SpecError('a [string] is not valid UTF-8: %s' % e)

    def string(self):
        return self._utf8(self.take(self.short()))

    def short_bytes(self):
        return self.take(self.short())

    def long_string(self):
        n = self.int()
        if n < 0:
            raise SpecError('negative [long string] length')
        return self._utf8(self.take(n))

    def bytes_(self):
        n = self.int()
        return None if n < 0 else self.take(n)

    def value(self):
        n = self.int()
        if n == -1:
            return None
        if n == -2:
            return 'UNSET'
        if n < 0:
            raise SpecError('bad [value] length %d' % n)
        return self.take(n)

    def string_list(self):
        return [self.string() for _ in range(self.short())]

    def string_map(self):
        out = {}
        for _ in range(self.short()):
            k = self.string()
            out[k] = self.string()
        return out

    def bytes_map(self):
        out = {}
        for _ in range(self.short()):
            k = self.string()
            out[k] = self.bytes_()
        return out

    def end(self):
        if self.p != len(self.b):
            raise SpecError('%d bytes left over after the body' % (len(self.b) - self.p))


def parse_header(frame):
    if len(frame) < 8:
        raise SpecError('short frame')
    vbyte = frame[0]
    if vbyte & 0x80:
        raise SpecError('response direction bit set on a request')
    pv = vbyte & 0x7f
    if pv not in VERSIONS:
        raise SpecError('unknown version %r' % pv)
    if pv >= 3:
        if len(frame) < 9:
            raise SpecError('short frame')
        flags, stream, opcode, length = struct.unpack('>BhBi', frame[1:9])
        body = frame[9:]
    else:
        flags, stream, opcode, length = struct.unpack('>BbBi', frame[1:8])
        body = frame[8:]
    if length != len(body):
        raise SpecError('header length %d != body length %d' % (length, len(body)))
    return dict(version=pv, flags=flags, stream=stream, opcode=opcode, length=length), body


QFLAGS = dict(values=0x01, skip_metadata=0x02, page_size=0x04, paging_state=0x08, serial_consistency=0x10, timestamp=0x20, names=0x40, keyspace=0x80)
PAGING_OPTIONS = 0x80000000


def _query_params(r, pv, out):
    out['consistency'] = r.short()
    if pv == 1:
        return                                   # v1: <query><consistency> and nothing else
    flags = r.uint() if int_flags(pv) else r.byte()
    known = 0x7f | (0x80 if has_keyspace(pv) else 0) | (PAGING_OPTIONS if continuous_paging(pv) else 0)
    if flags & ~known:
        raise SpecError('query flags %#x not defined for version %d' % (flags, pv))
    if flags & QFLAGS['names']:
        raise SpecError('names-for-values not expected')
    out['flags'] = flags
    if flags & QFLAGS['values']:
        out['values'] = [r.value() for _ in range(r.short())]
    out['skip_metadata'] = bool(flags & QFLAGS['skip_metadata'])
    if flags & QFLAGS['page_size']:
        out['page_size'] = r.int()
    if flags & QFLAGS['paging_state']:
        out['paging_state'] = r.bytes_()
    if flags & QFLAGS['serial_consistency']:
        out['serial_consistency'] = r.short()
    if flags & QFLAGS['timestamp']:
        if pv < 3:
            raise SpecError('default timestamp needs v3')
        out['timestamp'] = r.long()
    if flags & QFLAGS['keyspace']:
        out['keyspace'] = r.string()
    if flags & PAGING_OPTIONS:
        out['continuous_paging'] = dict(max_pages=r.int(), max_pages_per_second=r.int())
        if pv >= DSE_V2:
            out['continuous_paging']['max_queue_size'] = r.int()


def parse_request(frame, decompress=None):
    h, body = parse_header(frame)
    pv = h['version']
    out = dict(header=h)
    if h['flags'] & 0x01:
        if pv >= 5 and pv < DSE_V1:
            raise SpecError('frame-level compression flag on a v5+ frame')
        if decompress is None:
            raise SpecError('compressed body but no decompressor negotiated')
        body = decompress(body)
    out['tracing'] = bool(h['flags'] & 0x02)
    if h['flags'] & 0x08:
        raise SpecError('warning flag on a request')
    r = R(body)
    if h['flags'] & 0x04:
        if pv < 4:
            raise SpecError('custom payload needs v4')
        out['custom_payload'] = r.bytes_map()
    op = h['opcode']
    if op == 0x01:
        out.update(kind='STARTUP', options=r.string_map())
        if 'CQL_VERSION' not in out['options']:
            raise SpecError('STARTUP without CQL_VERSION')
    elif op == 0x05:
        out.update(kind='OPTIONS')
    elif op == 0x0F:
        if pv < 2:
            raise SpecError('AUTH_RESPONSE needs v2')
        out.update(kind='AUTH_RESPONSE', token=r.bytes_())
    elif op == 0x04:
        if pv != 1:
            raise SpecError('CREDENTIALS only exists in v1')
        out.update(kind='CREDENTIALS', credentials=r.string_map())
    elif op == 0x07:
        out.update(kind='QUERY', query=r.long_string())
        _query_params(r, pv, out)
    elif op == 0x09:
        out.update(kind='PREPARE', query=r.long_string())
        if has_keyspace(pv):
            flags = r.uint()
            if flags & ~0x01:
                raise SpecError('unknown PREPARE flags %#x' % flags)
            if flags & 0x01:
                out['keyspace'] = r.string()
    elif op == 0x0A:
        out.update(kind='EXECUTE', query_id=r.short_bytes())
        if has_result_metadata_id(pv):
            out['result_metadata_id'] = r.short_bytes()
        if pv == 1:
            out['values'] = [r.value() for _ in range(r.short())]
            out['consistency'] = r.short()
        else:
            _query_params(r, pv, out)
    elif op == 0x0D:
        if pv < 2:
            raise SpecError('BATCH needs v2')
        out.update(kind='BATCH', batch_type=r.byte(), queries=[])
        if out['batch_type'] not in (0, 1, 2):
            raise SpecError('bad batch type')
        for _ in range(r.short()):
            k = r.byte()
            if k == 0:
                q = ('query', r.long_string())
            elif k == 1:
                q = ('id', r.short_bytes())
            else:
                raise SpecError('bad batch entry kind %d' % k)
            out['queries'].append(q + ([r.value() for _ in range(r.short())],))
        out['consistency'] = r.short()
        if pv >= 3:
            flags = r.uint() if int_flags(pv) else r.byte()
            if flags & ~(0x10 | 0x20 | 0x40 | (0x80 if has_keyspace(pv) else 0)):
                raise SpecError('batch flags %#x not defined for version %d' % (flags, pv))
            if flags & 0x10:
                out['serial_consistency'] = r.short()
            if flags & 0x20:
                out['timestamp'] = r.long()
            if flags & 0x80:
                out['keyspace'] = r.string()
    elif op == 0x0B:
        out.update(kind='REGISTER', events=r.string_list())
    elif op == 0xFF:
        if not continuous_paging(pv):
            raise SpecError('REVISE_REQUEST is a DSE message')
        out.update(kind='REVISE_REQUEST', op_type=r.int(), op_id=r.int())
        if out['op_type'] == 2:
            if pv < DSE_V2:
                raise SpecError('backpressure needs DSE_V2')
            out['next_pages'] = r.int()
    else:
        raise SpecError('opcode %#x is not a request' % op)
    r.end()
    return out


# ---------------------------------------------------------------------------
# response side (generator for C04)

def w_short(x):
    return struct.pack('>H', x)


def w_int(x):
    return struct.pack('>i', x)


def w_string(s):
    b = s.encode('utf8')
    return w_short(len(b)) + b


def w_long_string(s):
    b = s.encode('utf8')
    return w_int(len(b)) + b


def w_bytes(b):
    return w_int(-1) if b is None else w_int(len(b)) + b


def w_short_bytes(b):
    return w_short(len(b)) + b


def w_string_list(xs):
    return w_short(len(xs)) + b''.join(w_string(x) for x in xs)


def w_string_multimap(m):
    return w_short(len(m)) + b''.join(w_string(k) + w_string_list(v) for k, v in m.items())


def w_bytes_map(m):
    return w_short(len(m)) + b''.join(w_string(k) + w_bytes(v) for k, v in m.items())


def w_inet(addr_bytes, port):
    return bytes([len(addr_bytes)]) + addr_bytes + w_int(port)


def w_inetaddr(addr_bytes):
    return bytes([len(addr_bytes)]) + addr_bytes


def w_option(t):
    """[option] for a column type given as a nested tuple: ('int',) / ('list', elem) / ('map', k, v) / ('set', e) / ('tuple', [..]) / ('custom', name)"""
    codes = dict(ascii=1, bigint=2, blob=3, boolean=4, counter=5, decimal=6, double=7, float=8, int=9, timestamp=0xB, uuid=0xC, varchar=0xD, varint=0xE,
                 timeuuid=0xF, inet=0x10, date=0x11, time=0x12, smallint=0x13, tinyint=0x14, duration=0x15)
    k = t[0]
    if k in codes:
        return w_short(codes[k])
    if k == 'custom':
        return w_short(0) + w_string(t[1])
    if k == 'list':
        return w_short(0x20) + w_option(t[1])
    if k == 'map':
        return w_short(0x21) + w_option(t[1]) + w_option(t[2])
    if k == 'set':
        return w_short(0x22) + w_option(t[1])
    if k == 'tuple':
        return w_short(0x31) + w_short(len(t[1])) + b''.join(w_option(x) for x in t[1])
    if k == 'udt':
        return w_short(0x30) + w_string(t[1]) + w_string(t[2]) + w_short(len(t[3])) + b''.join(w_string(n) + w_option(x) for n, x in t[3])
    raise ValueError(t)


def rows_metadata(cols, global_spec, paging_state=None, no_metadata=False, new_metadata_id=None):
    """<flags><columns_count>[<paging_state>][<new_metadata_id>][<global_table_spec>?<col_spec_1>...]; cols = [(ks, table, name, type)]"""
    flags = (0x0001 if global_spec and not no_metadata else 0) | (0x0002 if paging_state is not None else 0) | (0x0004 if no_metadata else 0) | \
        (0x0008 if new_metadata_id is not None else 0)
    out = w_int(flags) + w_int(len(cols))
    if paging_state is not None:
        out += w_bytes(paging_state)
    if new_metadata_id is not None:
        out += w_short_bytes(new_metadata_id)
    if no_metadata:
        return out
    if global_spec:
        out += w_string(cols[0][0]) + w_string(cols[0][1]) if cols else w_string('ks') + w_string('tbl')
    for ks, table, name, typ in cols:
        if not global_spec:
            out += w_string(ks) + w_string(table)
        out += w_string(name) + w_option(typ)
    return out


def result_rows(cols, rows, **kw):
    body = w_int(2) + rows_metadata(cols, **kw) + w_int(len(rows))
    for row in rows:
        for cell in row:
            body += w_bytes(cell)
    return body


def result_void():
    return w_int(1)


def result_set_keyspace(ks):
    return w_int(3) + w_string(ks)


def result_prepared(pv, query_id, bind_cols, pk_indexes, result_cols, result_metadata_id=None, global_spec=True):
    body = w_int(4) + w_short_bytes(query_id)
    if has_result_metadata_id(pv):
        body += w_short_bytes(result_metadata_id)
    flags = 0x0001 if global_spec else 0
    body += w_int(flags) + w_int(len(bind_cols))
    if pv >= 4:
        body += w_int(len(pk_indexes)) + b''.join(w_short(i) for i in pk_indexes)
    if global_spec:
        body += w_string('ks') + w_string('tbl')
    for ks, table, name, typ in bind_cols:
        if not global_spec:
            body += w_string(ks) + w_string(table)
        body += w_string(name) + w_option(typ)
    body += rows_metadata(result_cols, global_spec=global_spec)
    return body


def schema_change_body(pv, change, target, keyspace, name=None, arg_types=None):
    """<change_type><target>[options] (v3+), <change_type><keyspace><table> (v1/v2)"""
    if pv < 3:
        return w_string(change) + w_string(keyspace) + w_string('' if target == 'KEYSPACE' else (name or ''))
    out = w_string(change) + w_string(target) + w_string(keyspace)
    if target != 'KEYSPACE':
        out += w_string(name)
    if target in ('FUNCTION', 'AGGREGATE'):
        out += w_string_list(arg_types or [])
    return out


def error_body(code, message, extra=b''):
    return w_int(code) + w_string(message) + extra


def frame_prefix(flags_wanted, trace_id=None, warnings=None, custom_payload=None):
    """the optional body prefix in spec order: [tracing id][warnings][custom payload] and the matching header flags"""
    flags, out = 0, b''
    if trace_id is not None:
        flags |= 0x02
        out += trace_id
    if warnings is not None:
        flags |= 0x08
        out += w_string_list(warnings)
    if custom_payload is not None:
        flags |= 0x04
        out += w_bytes_map(custom_payload)
    return flags, out
