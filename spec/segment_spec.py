"""Native protocol v5 framing (section 2 of native_protocol_v5.spec) and Cassandra's Crc.crc24, transcribed.

Header, little-endian: payload length (17 bits) | [uncompressed length (17 bits), only with compression] | self-contained flag,
in 3 bytes (no compression) or 5 bytes (compression), followed by the 3-byte little-endian CRC24 of those header bytes.
Then the payload (<= 128 KiB - 1) and the 4-byte little-endian CRC32 of the payload (initialised with the bytes fa 2d 55 ca).
"""
CRC24_INIT = 0x875060
CRC24_POLY = 0x1974F0B
MAX_PAYLOAD = (1 << 17) - 1


def crc24(data, length):
    crc = CRC24_INIT
    for _ in range(length):
        crc ^= (data & 0xff) << 16
        data >>= 8
        for _i in range(8):
            crc <<= 1
            if crc & 0x1000000:
                crc ^= CRC24_POLY
    return crc


def header_int(payload_length, uncompressed_length, self_contained, compression):
    h = payload_length
    off = 17
    if compression:
        h |= uncompressed_length << 17
        off = 34
    if self_contained:
        h |= 1 << off
    return h


def header_bytes(payload_length, uncompressed_length, self_contained, compression):
    n = 5 if compression else 3
    h = header_int(payload_length, uncompressed_length, self_contained, compression)
    return h.to_bytes(n, 'little') + crc24(h, n).to_bytes(3, 'little')


def z_crc24(data_bv, length):
    """crc24 over a z3 bit-vector `data_bv` (width >= 8*length); result is a 32-bit vector."""
    import z3
    W = 32
    crc = z3.BitVecVal(CRC24_INIT, W)
    for k in range(length):
        byte = z3.ZeroExt(W - 8, z3.Extract(8 * k + 7, 8 * k, data_bv))
        crc = crc ^ (byte << 16)
        for _i in range(8):
            crc = crc << 1
            crc = z3.If(z3.Extract(24, 24, crc) == 1, crc ^ z3.BitVecVal(CRC24_POLY, W), crc)
    return crc


def z_crc24_step(crc, byte, W=128):
    """One byte of Crc.crc24 on W-bit vectors: crc ^= byte << 16, then 8 shift/conditional-xor rounds."""
    import z3
    crc = crc ^ (byte << 16)
    for _i in range(8):
        crc = crc << 1
        crc = z3.If((crc & z3.BitVecVal(0x1000000, W)) != 0, crc ^ z3.BitVecVal(CRC24_POLY, W), crc)
    return crc


def z_crc24_wide(data, length, W=128):
    """crc24 as the fold of z_crc24_step over the `length` low bytes of the W-bit vector `data`."""
    import z3
    crc = z3.BitVecVal(CRC24_INIT, W)
    for k in range(length):
        byte = z3.LShR(data, 8 * k) & z3.BitVecVal(0xff, W)
        crc = z_crc24_step(crc, byte, W)
    return crc
