"""Replica placement as Cassandra computes it (transcribed from org.apache.cassandra.locator.SimpleStrategy.calculateNaturalReplicas and
NetworkTopologyStrategy.calculateNaturalReplicas, Cassandra 4.x).  Pure Python over concrete values; hosts are any hashable objects
with .datacenter and .rack.  `ring` is the sorted token list, `owner` maps token -> host, `start` is the index of the first ring
token at or after the search token (wrapping)."""


def ring_walk(ring, owner, start):
    n = len(ring)
    return [owner[ring[(start + k) % n]] for k in range(n)]


def simple_strategy(ring, owner, start, rf):
    """SimpleStrategy: the first rf DISTINCT endpoints met walking the ring clockwise from the token."""
    out = []
    for h in ring_walk(ring, owner, start):
        if len(out) >= rf:
            break
        if h not in out:
            out.append(h)
    return out


def network_topology_strategy(ring, owner, start, dc_rf):
    """NetworkTopologyStrategy (CASSANDRA-3881 semantics as implemented in 3.x/4.x DatacenterEndpoints):
    per datacenter: rfLeft = min(rf, nodes in dc); acceptableRackRepeats = rf - racks in dc; walking the ring, an endpoint of a NEW
    rack is always taken; an endpoint of an already used rack only while acceptableRackRepeats > 0; never the same endpoint twice."""
    hosts = set(owner[t] for t in ring)
    by_dc, racks_by_dc = {}, {}
    for h in hosts:
        by_dc.setdefault(h.datacenter, set()).add(h)
        racks_by_dc.setdefault(h.datacenter, set()).add(h.rack)
    state = {}
    for dc, rf in dc_rf.items():
        n = len(by_dc.get(dc, ()))
        if rf <= 0 or n <= 0:
            continue
        state[dc] = {'rf_left': min(rf, n), 'repeats': rf - len(racks_by_dc[dc]), 'racks': set(), 'eps': []}
    to_fill = len(state)
    out = []
    for h in ring_walk(ring, owner, start):
        if to_fill <= 0:
            break
        st = state.get(h.datacenter)
        if st is None or st['rf_left'] <= 0 or h in st['eps']:
            continue
        if h.rack not in st['racks']:
            st['racks'].add(h.rack)
        elif st['repeats'] <= 0:
            continue
        else:
            st['repeats'] -= 1
        st['rf_left'] -= 1
        st['eps'].append(h)
        out.append(h)
        if st['rf_left'] <= 0:
            to_fill -= 1
    return out
