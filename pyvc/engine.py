"""pyvc engine: path exploration, obligations, discharge, harness registry.

Exploration is by re-execution: a harness is a Python function that builds
symbolic inputs, states assumptions (requires), runs real repository code
through the AST interpreter (pyvc.interp) and states checks (ensures).  Every
branch on a symbolic condition is a decision point; the driver re-runs the
harness once per feasible decision sequence.  Obligations are discharged with
z3 (fresh solver, full path condition), falling back to the cvc5 CLI on
`unknown`.
"""
import hashlib
import json
import os
import subprocess
import tempfile
import time
import traceback

import z3

from . import sym
from .sym import Unsupported, SBool, SInt, SBytes, SStr, SReal, SSeq, SU

_cur = None


def cur():
    if _cur is None:
        raise RuntimeError('no active pyvc exploration context')
    return _cur


class PathAbort(Exception):
    """The current path ends here (infeasible, or deliberately cut)."""


class Undecided(Exception):
    pass


TIER = os.environ.get('VERIF_TIER', 'quick')
# per-query budgets (wall clock, so they must leave room for a machine on which every core is busy): the first z3 attempt is
# cut short - a query z3 answers at all it answers in well under a second when the machine is idle - and the later stages
# of the portfolio (_solve) get the full budget
QUERY_TIMEOUT_MS = 20000 if TIER == 'quick' else 60000
FIRST_TIMEOUT_MS = 5000 if TIER == 'quick' else 30000
BRANCH_TIMEOUT_MS = 2000
# path budget per harness (exceeding it is UNDECIDED, never a pass).  The thorough tier widens the enumerated dimensions of
# some harnesses (C21 6 hosts: 9 408 paths, C22: 35 118, C32 4 statements: 28 316, C44 3 connections: 6 174), which the
# quick budget cannot hold; the per-harness watchdog (cli.HARD_LIMIT_S) still bounds the time.
MAX_PATHS = int(os.environ.get('PYVC_MAX_PATHS', '6000' if TIER == 'quick' else '250000'))
CVC5 = '/usr/bin/cvc5'
# wall-clock budget of ONE path of a harness: a path that needs longer (an edit that turns a structural parse into a search over
# symbolic offsets, say) ends UNDECIDED and the other paths of the harness are still explored and reported
HARNESS_LIMIT_S = float(os.environ.get('PYVC_HARNESS_LIMIT_S', '300' if TIER == 'quick' else '1700'))
PATH_LIMIT_S = float(os.environ.get('PYVC_PATH_LIMIT_S', '90' if TIER == 'quick' else '600'))


def _mk_solver(timeout_ms):
    s = z3.Solver()
    s.set('timeout', timeout_ms)
    try:
        s.set('random_seed', int(os.environ.get('VERIF_SEED', '0')) % (2 ** 31))
    except Exception:
        pass
    return s


def _cvc5_export(smt2):
    """z3's SMT-LIB export made readable for cvc5 1.0.3.
    z3's printer emits two internal symbols after simplification of seq.nth:  seq.nth_i (the in-range element) and
    seq.nth_u (the unspecified out-of-range value).  cvc5 knows neither and used to reject the whole benchmark (a parse
    error, i.e. a silent `unknown`).  seq.nth_i is rendered as cvc5's seq.nth (equal in range, an unconstrained function of
    its arguments out of range in both solvers) and seq.nth_u is declared as an uninterpreted function - every z3 model of
    the original is a cvc5 model of the export, so cvc5's `unsat` carries over."""
    txt = smt2
    decls = ''
    if 'seq.nth_u' in txt:
        # one declaration per element sort in use; only Int-element sequences occur in pyvc's encodings
        decls += '(declare-fun seq.nth_u ((Seq Int) Int) Int)\n'
    txt = txt.replace('seq.nth_i', 'seq.nth')
    # z3 5.1 prints the SMT-LIB 2.7 names of the int/bit-vector conversions; cvc5 1.0.3 knows the older ones (same meaning:
    # unsigned value of a bit-vector, integer modulo 2^N as a bit-vector)
    txt = txt.replace('(_ int_to_bv ', '(_ int2bv ').replace('(ubv_to_int ', '(bv2nat ')
    return '(set-logic ALL)\n' + decls + txt


Z3_OLD = '/usr/bin/z3'


def _oldz3_export(smt2):
    """z3 5.1's export made readable for the Debian z3 4.8.12 CLI (an independent build of the same solver family whose sequence
    procedure decides some extract/concat queries at once on which 5.1 wanders): only the SMT-LIB 2.7 conversion names differ."""
    return smt2.replace('(_ int_to_bv ', '(_ int2bv ').replace('(ubv_to_int ', '(bv2nat ')


def _cvc5_text(smt2):
    import re
    txt = _cvc5_export(smt2)
    # z3 prints a one-literal pseudo-boolean equality for some simplified tests: ((_ pbeq 0 1) x) is "x is false", ((_ pbeq 1 1) x) is x
    txt = re.sub(r'\(\(_ pbeq 0 1\) ([^()\s]+)\)', r'(not \1)', txt)
    txt = re.sub(r'\(\(_ pbeq 1 1\) ([^()\s]+)\)', r'\1', txt)
    return txt


class _CliJob(object):
    """An external solver on an SMT-LIB2 benchmark produced by z3, started in the background; poll() is non-blocking, result() waits for
    it (at most its own time limit); both return ('sat'|'unsat'|'unknown', detail) (poll: None while running)."""

    def __init__(self, name, argv, text, timeout_ms):
        self.name = name
        self.timeout_ms = timeout_ms
        self.proc = None
        self.path = None
        self.done = None
        self.t0 = time.time()
        try:
            fd, self.path = tempfile.mkstemp(suffix='.smt2', dir=os.environ.get('VERIF_SCRATCH', '/dev/shm'))
            with os.fdopen(fd, 'w') as f:
                f.write(text if '(check-sat)' in text else text + '\n(check-sat)\n')
            self.proc = subprocess.Popen(argv + [self.path], stdout=subprocess.PIPE, stderr=subprocess.PIPE, text=True)
        except OSError as e:
            self.done = ('unknown', '%s: not started (%s)' % (name, e))
            self._cleanup()

    def _cleanup(self):
        if self.path:
            try:
                os.unlink(self.path)
            except OSError:
                pass
            self.path = None

    def _finish(self, out, err):
        self.proc = None
        self._cleanup()
        lines = (out or '').strip().splitlines()
        if lines and lines[0] in ('sat', 'unsat'):
            self.done = (lines[0], '')
        else:
            self.done = ('unknown', self.name + ': ' + (((out or '') + (err or '')).strip().replace('\n', ' ')[:200] or 'no answer within its time limit'))
        return self.done

    def poll(self):
        if self.done is not None:
            return self.done
        if self.proc.poll() is None:
            if time.time() - self.t0 > self.timeout_ms / 1000.0 + 5:
                self.cancel()
                self.done = ('unknown', self.name + ': timeout')
                return self.done
            return None
        out, err = self.proc.communicate()
        return self._finish(out, err)

    def result(self):
        if self.done is not None:
            return self.done
        try:
            left = max(0.1, self.timeout_ms / 1000.0 + 5 - (time.time() - self.t0))
            out, err = self.proc.communicate(timeout=left)
        except subprocess.TimeoutExpired:
            self.cancel()
            self.done = ('unknown', self.name + ': timeout')
            return self.done
        return self._finish(out, err)

    def cancel(self):
        if self.proc is not None:
            try:
                self.proc.kill()
                self.proc.communicate()
            except Exception:
                pass
            self.proc = None
        self._cleanup()


def _Cvc5Job(smt2, timeout_ms):
    return _CliJob('cvc5', [CVC5, '--lang=smt2', '--strings-exp', '--tlimit=%d' % timeout_ms], _cvc5_text(smt2), timeout_ms)


def _OldZ3Job(smt2, timeout_ms):
    return _CliJob('z3-4.8', [Z3_OLD, '-T:%d' % max(1, timeout_ms // 1000)], _oldz3_export(smt2), timeout_ms)


def _cvc5_check(smt2, timeout_ms):
    return _Cvc5Job(smt2, timeout_ms).result()


RESEEDS = 2
QUICK_FIRST_MS = 1500


def _z3_reseeded(assertions, k, want_model, smt2, jobs=()):
    """z3 on a copy of the assertions translated into a fresh context (new term numbering) with a different seed.  While it runs, a
    watcher interrupts it as soon as one of the background CLI jobs has proved the query (`unsat`)."""
    import threading
    seed0 = int(os.environ.get('VERIF_SEED', '0') or 0)
    c2 = z3.Context()
    s2 = z3.Solver(ctx=c2)
    s2.set('timeout', QUERY_TIMEOUT_MS)
    s2.set('random_seed', (seed0 + 7919 * k) % (2 ** 31))
    for c in assertions:
        s2.add(c.translate(c2))
    stop = threading.Event()
    proved = []

    def watch():
        while not stop.wait(0.05):
            for j in jobs:
                r = j.poll()
                if r is not None and r[0] == 'unsat':
                    proved.append(j.name)
                    try:
                        c2.interrupt()
                    except Exception:
                        pass
                    return
    th = None
    if jobs:
        th = threading.Thread(target=watch, daemon=True)
        th.start()
    try:
        try:
            r3 = s2.check()
        except z3.Z3Exception:
            r3 = z3.unknown
    finally:
        stop.set()
        if th is not None:
            th.join(1)
    if r3 == z3.unsat:
        return {'status': 'unsat', 'backend': 'z3-reseeded'}
    if r3 == z3.sat:
        m = s2.model()
        return {'status': 'sat', 'backend': 'z3-reseeded',
                'model': want_model(m, lambda t: t.translate(c2)) if want_model else {},
                'smt2': smt2, 'model_text': str(m)[:4000]}
    if proved:
        return {'status': 'unsat', 'backend': proved[0]}
    return {'status': 'unknown', 'reason': 'z3-reseeded#%d: %s' % (k, s2.reason_unknown())}


def _solve(assertions, want_model=None):
    """Decide the conjunction of `assertions` with a portfolio, stopping at the first definite answer:
         1. z3 5.1 in process (seed VERIF_SEED), a short first budget: a query z3 answers at all it nearly always answers in milliseconds;
         2. on `unknown`, in the background on z3's SMT-LIB export: the cvc5 1.0.3 CLI and the Debian z3 4.8.12 CLI (full budget), while
         3. z3 5.1 runs again on a copy of the assertions translated into a fresh context with another seed (full budget; interrupted
            as soon as a background solver reports `unsat`);
         4. if all are still undecided, one more reseeded z3 run.
    z3's nonlinear-integer and sequence procedures are heuristic: the same valid query is proved in 0.1 s or runs past any
    time limit depending on the seed, term numbering, solver version and machine load.  Any back end's `unsat` is a proof and a `sat`
    is only believed with a model that replays natively, so trying more than one is sound in both directions; `unknown` is returned
    only when all of them give up.
    Returns a dict: status, backend, reason, smt2, and for sat: model (via want_model(model, translate)) and model_text."""
    s = _mk_solver(min(QUICK_FIRST_MS, FIRST_TIMEOUT_MS))
    for c in assertions:
        s.add(c)
    try:
        r = s.check()
    except z3.Z3Exception:
        r = z3.unknown
    if r == z3.unsat:
        return {'status': 'unsat', 'backend': 'z3'}
    smt2 = s.to_smt2()
    if r == z3.sat:
        m = s.model()
        return {'status': 'sat', 'backend': 'z3', 'model': want_model(m, lambda t: t) if want_model else {},
                'smt2': smt2, 'model_text': str(m)[:4000]}
    reasons = ['z3: ' + s.reason_unknown()]
    if os.environ.get('PYVC_DUMP_UNKNOWN'):
        with open(os.path.join(os.environ['PYVC_DUMP_UNKNOWN'], 'unk_%d_%d.smt2' % (os.getpid(), int(time.time() * 1000))), 'w') as f:
            f.write(smt2)
    jobs = [_Cvc5Job(smt2, QUERY_TIMEOUT_MS), _OldZ3Job(smt2, QUERY_TIMEOUT_MS)]
    cli_sat = None
    try:
        r3 = _z3_reseeded(assertions, 1, want_model, smt2, jobs)
        if r3['status'] != 'unknown':
            return r3
        reasons.append(r3['reason'])
        for j in jobs:
            r2, why = j.result()
            if r2 == 'unsat':
                return {'status': 'unsat', 'backend': j.name}
            if r2 == 'sat':
                cli_sat = j.name
            reasons.append(why or '%s: sat (no model extracted)' % j.name)
    finally:
        for j in jobs:
            j.cancel()
    for k in range(2, RESEEDS + 1):
        r3 = _z3_reseeded(assertions, k, want_model, smt2)
        if r3['status'] != 'unknown':
            return r3
        reasons.append(r3['reason'])
    if cli_sat:
        return {'status': 'sat', 'backend': cli_sat, 'model': {}, 'smt2': smt2,
                'model_text': '(%s reported sat; no model extracted)' % cli_sat}
    return {'status': 'unknown', 'backend': 'z3+cvc5+z3-4.8', 'reason': '; '.join(reasons), 'smt2': smt2}


class Ctx(object):
    """One path of one harness."""

    def __init__(self, run, decisions):
        self.run = run
        self.decisions = list(decisions)
        self.pos = 0
        self.pc = []
        self.solver = _mk_solver(BRANCH_TIMEOUT_MS)
        self.counter = {}
        self.inputs = []          # (name, kind, term) registered symbolic inputs, for model extraction
        self.notes = []
        self.depth = 0
        self.loop_specs = run.loop_specs
        self.stubs = run.stubs
        self.ghost = {}
        self.float_overflow_nondet = False   # E-FLOAT: int->float conversion in int*float may raise OverflowError
        self.t0 = time.time()

    def _budget(self):
        if time.time() - self.t0 > PATH_LIMIT_S:
            raise Undecided('path time budget of %d s exceeded (decisions %s)' % (PATH_LIMIT_S, ''.join('T' if d else 'F' for d in self.decisions[:self.pos])))

    # -- naming ------------------------------------------------------------
    def fresh_name(self, base):
        k = self.counter.get(base, 0)
        self.counter[base] = k + 1
        return base if k == 0 else '%s!%d' % (base, k)

    # -- path condition ----------------------------------------------------
    def _feasible(self, cond):
        try:
            r = self.solver.check(cond)
        except z3.Z3Exception:
            return True          # the solver gave up: unknown counts as feasible (sound: more paths)
        return r != z3.unsat

    def branch(self, cond):
        self._budget()
        cond = z3.simplify(cond)
        if z3.is_true(cond):
            return True
        if z3.is_false(cond):
            return False
        if self.pos < len(self.decisions):
            d = self.decisions[self.pos]
        else:
            t_ok = self._feasible(cond)
            f_ok = self._feasible(z3.Not(cond))
            if t_ok and f_ok:
                self.run.push(self.decisions + [False])
                d = True
            elif t_ok:
                d = True
            elif f_ok:
                d = False
            else:
                raise PathAbort('infeasible')
            self.decisions.append(d)
        self.pos += 1
        c = cond if d else z3.Not(cond)
        self.pc.append(c)
        self.solver.add(c)
        return d

    def assume(self, cond, silent=False):
        if isinstance(cond, bool):
            if not cond:
                raise PathAbort('assume False')
            return
        if isinstance(cond, SBool):
            cond = cond.t
        cond = z3.simplify(cond)
        if z3.is_true(cond):
            return
        if z3.is_false(cond):
            raise PathAbort('assume false')
        self.pc.append(cond)
        self.solver.add(cond)
        if not silent:
            if self.solver.check() == z3.unsat:
                raise PathAbort('assumption infeasible')

    # -- obligations -------------------------------------------------------
    def check(self, name, cond, expect_fail=False, note=None):
        """Obligation: on this path, pc => cond.  Afterwards cond is assumed."""
        self._budget()
        t0 = time.time()
        if isinstance(cond, bool):
            condt = z3.BoolVal(cond)
        elif isinstance(cond, SBool):
            condt = cond.t
        else:
            condt = cond
        res = self._discharge(condt)
        res['name'] = name
        res['time'] = time.time() - t0
        res['expect_fail'] = expect_fail
        res['decisions'] = list(self.decisions[:self.pos])
        if note:
            res['note'] = note
        self.run.record(res)
        if not expect_fail:
            if res['status'] == 'unsat':
                self.assume(condt, silent=True)
            else:
                # do not continue a path past a failed/unknown obligation with it assumed:
                # assume it so that later obligations are reported independently
                self.assume(condt, silent=False)

    def lemma(self, name, formula):
        """A *checked* lemma: `formula` is discharged as its own obligation in the EMPTY context (so it is valid for all
        values of its free symbols, independent of this path) and only then added to the path condition.  Used to hand
        the solver a nonlinear fact it finds reliably in isolation but only erratically inside a large query."""
        t0 = time.time()
        ft = formula.t if isinstance(formula, SBool) else formula
        res = _solve([z3.Not(ft)])
        res.update({'name': name, 'time': time.time() - t0, 'expect_fail': False,
                    'decisions': list(self.decisions[:self.pos]), 'note': 'checked lemma (empty context)'})
        self.run.record(res)
        if res['status'] == 'unsat':
            self.assume(ft, silent=True)

    def _discharge(self, condt):
        neg = z3.simplify(z3.Not(condt))
        if z3.is_false(neg):
            return {'status': 'unsat', 'backend': 'simplify'}
        return _solve(list(self.pc) + [neg], want_model=self._model_inputs)

    def cover(self, name):
        """Vacuity guard: this point must be reachable with a satisfiable path condition."""
        r = _solve(list(self.pc))
        self.run.record_cover(name, r['status'] == 'sat', r['status'])

    def _model_inputs(self, m, tr=lambda t: t):
        out = {}
        for name, kind, term in self.inputs:
            try:
                v = m.eval(tr(term), model_completion=True)
                out[name] = model_value(kind, v)
            except Exception as e:   # pragma: no cover
                out[name] = {'error': repr(e)}
        return out

    # -- fresh symbolic inputs ----------------------------------------------
    def _reg(self, name, kind, term):
        self.inputs.append((name, kind, term))

    def fresh_int(self, base, register=True):
        n = self.fresh_name(base)
        t = z3.Int(n)
        if register:
            self._reg(n, 'int', t)
        return SInt(t)

    def fresh_bool(self, base, register=True):
        n = self.fresh_name(base)
        t = z3.Bool(n)
        if register:
            self._reg(n, 'bool', t)
        return SBool(t)

    def fresh_real(self, base, register=True):
        n = self.fresh_name(base)
        t = z3.Real(n)
        if register:
            self._reg(n, 'real', t)
        return SReal(t)

    def fresh_bytes(self, base, register=True):
        n = self.fresh_name(base)
        t = z3.Const(n, sym.ByteSeq)
        if register:
            self._reg(n, 'bytes', t)
        return SBytes(t)

    def fresh_str(self, base, register=True):
        n = self.fresh_name(base)
        t = z3.String(n)
        if register:
            self._reg(n, 'str', t)
        return SStr(t)

    def fresh_intseq(self, base, register=True):
        n = self.fresh_name(base)
        t = z3.Const(n, z3.SeqSort(z3.IntSort()))
        if register:
            self._reg(n, 'intseq', t)
        return sym.int_seq(t)

    def fresh_u(self, base, sort, register=True):
        n = self.fresh_name(base)
        t = z3.Const(n, sort)
        if register:
            self._reg(n, 'u', t)
        return SU(t)

    def fresh_like(self, v, base='havoc'):
        """A fresh unconstrained value of the same kind as v (used to havoc loop-modified variables)."""
        if isinstance(v, SBool) or isinstance(v, bool):
            return self.fresh_bool(base, register=False)
        if isinstance(v, SInt) or isinstance(v, int):
            return self.fresh_int(base, register=False)
        if isinstance(v, SReal) or isinstance(v, float):
            return self.fresh_real(base, register=False)
        if isinstance(v, (SBytes, bytes)):
            return self.fresh_bytes(base, register=False)
        if isinstance(v, (SStr, str)):
            return self.fresh_str(base, register=False)
        if isinstance(v, SSeq):
            n = self.fresh_name(base)
            return SSeq(z3.Const(n, v.t.sort()), v.wrap, v.unwrap)
        if isinstance(v, SU):
            return self.fresh_u(base, v.t.sort(), register=False)
        if isinstance(v, sym.SLow):
            return sym.SLow(z3.BitVec(self.fresh_name(base), v.t.size()))
        raise Unsupported('cannot havoc value of kind %s' % type(v).__name__)


def model_value(kind, v):
    if kind == 'int':
        return v.as_long() if z3.is_int_value(v) else str(v)
    if kind == 'bool':
        return z3.is_true(v)
    if kind == 'real':
        s = str(v)
        return s
    if kind == 'bytes' or kind == 'intseq':
        items = _seq_items(v)
        if items is None:
            return str(v)
        if kind == 'bytes':
            try:
                return {'bytes_hex': bytes([x % 256 for x in items]).hex()}
            except Exception:
                return {'ints': items}
        return items
    if kind == 'str':
        try:
            import re as _re
            # z3 prints characters outside printable ASCII as \u{hex} (and \xhh in older versions): give the replay the characters themselves
            t = v.as_string()
            t = _re.sub(r'\\u\{([0-9a-fA-F]+)\}', lambda m: chr(int(m.group(1), 16)), t)
            return _re.sub(r'\\x([0-9a-fA-F]{2})', lambda m: chr(int(m.group(1), 16)), t)
        except Exception:
            return str(v)
    return str(v)


def _seq_items(v):
    """Flatten a z3 sequence value into a list of ints."""
    v = z3.simplify(v)
    out = []

    def walk(e):
        k = e.decl().kind()
        if k == z3.Z3_OP_SEQ_EMPTY:
            return True
        if k == z3.Z3_OP_SEQ_UNIT:
            a = e.arg(0)
            if z3.is_int_value(a):
                out.append(a.as_long())
                return True
            return False
        if k == z3.Z3_OP_SEQ_CONCAT:
            return all(walk(c) for c in e.children())
        return False
    try:
        return out if walk(v) else None
    except Exception:
        return None


# ---------------------------------------------------------------------------

class Run(object):
    """All paths of one harness."""

    def __init__(self, harness):
        self.harness = harness
        self.work = [[]]
        self.results = []
        self.covers = {}
        self.paths = 0
        self.aborted = 0
        self.undecided = []
        self.errors = []
        self.loop_specs = {}
        self.stubs = {}
        self.expr_hooks = {}
        self.functions = {}     # qualname -> {'sha256':..., 'role': 'contract'|'inlined'}
        self.assumptions = set()
        self.notes = []

    def push(self, decisions):
        self.work.append(decisions)

    def record(self, res):
        self.results.append(res)

    def record_cover(self, name, ok, why):
        prev = self.covers.get(name, False)
        self.covers[name] = prev or ok

    def _escaped(self, ctx, what):
        """An exception left the harness on this path.  Branch feasibility is decided with a short solver budget and `unknown` counts as
        feasible (sound: more paths), so under load a path can be entered whose condition is in fact unsatisfiable; code run there may
        raise what no real execution raises.  Before this is reported as a checker error the path condition goes through the full
        portfolio: unsat = the path does not exist (dropped), sat = a real escape (error), unknown = undecided."""
        try:
            r = _solve(list(ctx.pc))
        except Exception:
            r = {'status': 'unknown'}
        if r['status'] == 'unsat':
            self.aborted += 1
        elif r['status'] == 'sat':
            self.errors.append(what)
        else:
            self.undecided.append('an exception escaped on a path whose feasibility is undecided: %s' % what[-300:])

    def explore(self):
        global _cur
        from .interp import PyExc
        t0 = time.time()
        while self.work:
            if self.paths >= MAX_PATHS:
                self.undecided.append('path budget %d exceeded' % MAX_PATHS)
                break
            if time.time() - t0 > HARNESS_LIMIT_S:
                # stop early enough to report what was explored (the driver kills a harness process at its hard limit and then nothing is reported)
                self.undecided.append('harness time budget of %d s exceeded after %d paths' % (HARNESS_LIMIT_S, self.paths))
                break
            decisions = self.work.pop()
            # contracts registered by the harness (stubs, loop specs, expression hooks) are per path
            self.stubs.clear()
            self.loop_specs.clear()
            self.expr_hooks.clear()
            ctx = Ctx(self, decisions)
            _cur = ctx
            self.paths += 1
            try:
                self.harness.fn(VC(ctx, self))
            except PathAbort:
                self.aborted += 1
            except Unsupported as e:
                self.undecided.append('unsupported: %s' % e)
            except Undecided as e:
                self.undecided.append(str(e))
            except PyExc as e:
                self._escaped(ctx, 'uncaught Python exception escaped harness: %s' % (e,))
            except RecursionError:
                self.undecided.append('interpreter recursion limit')
            except Exception:
                self._escaped(ctx, traceback.format_exc())
            finally:
                _cur = None
        self.wall = time.time() - t0
        return self


class Harness(object):
    def __init__(self, prop, name, fn, functions, kind, doc):
        self.prop = prop
        self.name = name
        self.fn = fn
        self.functions = functions
        self.kind = kind
        self.doc = doc


HARNESSES = {}


def harness(prop, name=None, functions=(), kind='proof', native=None):
    def deco(fn):
        n = name or fn.__name__
        h = Harness(prop, n, fn, list(functions), kind, (fn.__doc__ or '').strip())
        h.native = native
        HARNESSES.setdefault(prop, []).append(h)
        return fn
    return deco


# ---------------------------------------------------------------------------
# the facade handed to harnesses

class VC(object):
    def __init__(self, ctx, run):
        self.ctx = ctx
        self.run = run

    # inputs
    def int(self, name): return self.ctx.fresh_int(name)
    def bool(self, name): return self.ctx.fresh_bool(name)
    def real(self, name): return self.ctx.fresh_real(name)
    def bytes(self, name): return self.ctx.fresh_bytes(name)

    def bytes_of_length(self, name, n):
        """symbolic bytes of exactly n bytes whose len() is the concrete n (a long buffer without a long literal)"""
        b = self.ctx.fresh_bytes(name)
        self.ctx.assume((b.length() == n).t, silent=True)
        if not hasattr(self.ctx, 'fixed_len'):
            self.ctx.fixed_len = {}
        self.ctx.fixed_len[b.t.get_id()] = n
        return b
    def str(self, name): return self.ctx.fresh_str(name)
    def intseq(self, name): return self.ctx.fresh_intseq(name)

    def opaque(self, name, sortname='Obj'):
        return self.ctx.fresh_u(name, z3.DeclareSort(sortname))

    def choice(self, name, options):
        """Fork over a finite list of concrete options (each becomes its own path family)."""
        options = list(options)
        idx = self.ctx.fresh_int('choice_' + name)
        self.ctx.assume(z3.And(idx.t >= 0, idx.t < len(options)), silent=True)
        for i, o in enumerate(options[:-1]):
            if self.ctx.branch(idx.t == i):
                return o
        return options[-1]

    def obj(self, cls, **attrs):
        from .interp import SObj
        return SObj(cls, dict(attrs))

    # assumptions / checks
    def assume(self, cond): self.ctx.assume(cond)
    def check(self, name, cond, **kw): self.ctx.check(name, cond, **kw)
    def cover(self, name): self.ctx.cover(name)

    def must_fail(self, name, cond):
        """Engine self-check: a deliberately wrong obligation that has to come back sat."""
        self.ctx.check(name, cond, expect_fail=True)

    def assumption(self, text):
        self.run.assumptions.add(text)

    def note(self, text):
        self.run.notes.append(text)

    # contracts for callees / loops
    def stub(self, target, fn):
        """Replace calls to `target` (qualified name or function object) by the contract `fn`."""
        from .interp import resolve
        obj = resolve(target) if isinstance(target, str) else target
        self.run.stubs[_fkey(obj)] = fn

    def loop(self, func, ordinal, invariant, havoc=None, decreases=None, on_exit=None):
        from .interp import resolve
        obj = resolve(func) if isinstance(func, str) else func
        self.run.loop_specs[(_fkey(obj), ordinal)] = (invariant, havoc, decreases, on_exit)
        if os.environ.get('PYVC_RECORD_LOCALS'):
            # tools/gen_loop_locals.sh: remember the binding order of the locals of every function with a loop contract (see interp.alpha_name)
            import json
            f = getattr(obj, '__func__', obj)
            path = os.environ['PYVC_RECORD_LOCALS']
            cur = json.load(open(path)) if os.path.exists(path) else {}
            cur[f.__module__ + '.' + f.__qualname__] = list(f.__code__.co_varnames)
            json.dump(cur, open(path, 'w'), indent=1, sort_keys=True)

    def abstract_expr(self, func, regex, handler):
        """Replace the call expression of `func` whose source text matches `regex` by `handler(interp, node, match)`
        (an assumed contract for that expression; list it in TRUSTED)."""
        import re
        from .interp import resolve
        obj = resolve(func) if isinstance(func, str) else func
        self.run.expr_hooks.setdefault(_fkey(obj), []).append((re.compile(regex), handler))

    def exec_slices(self, target, regex, local_vars):
        """As exec_slice, for EVERY top-level statement of `target` whose source text matches `regex`, in source order, in one frame - together with
        the earlier top-level statements that define a local name one of them reads (backward slice on local names, to a fixpoint), so that a
        condition or value given a name of its own first is still part of what is executed."""
        import ast, re, builtins
        from .interp import resolve, get_func_ast, Interp, Frame, _guess_defcls
        fn = resolve(target) if isinstance(target, str) else target
        fn = getattr(fn, '__func__', fn)
        node, path, src = get_func_ast(fn)
        pat = re.compile(regex, re.S)
        body = list(node.body)
        loads = [{n.id for n in ast.walk(st) if isinstance(n, ast.Name) and isinstance(n.ctx, ast.Load)} for st in body]
        stores = [{n.id for n in ast.walk(st) if isinstance(n, ast.Name) and isinstance(n.ctx, (ast.Store, ast.Del))} for st in body]
        chosen = {i for i, st in enumerate(body) if pat.search(ast.unparse(st))}
        if not chosen:
            raise Undecided('no statement of %s matches %r' % (target, regex))
        given = set(local_vars) | set(fn.__globals__) | set(dir(builtins))
        while True:
            more = set()
            for i in chosen:
                need = loads[i] - given
                for j in range(i):
                    if j not in chosen and stores[j] & need:
                        more.add(j)
            if not more:
                break
            chosen |= more
        frame = Frame(fn.__globals__, defcls=_guess_defcls(fn), fkey=_fkey(fn), fname=fn.__qualname__)
        frame.locals.update(local_vars)
        for i in sorted(chosen):
            Interp(self.ctx, frame).exec(body[i])
        if isinstance(target, str):
            self.run.functions.setdefault(target, {'role': 'slices: %s (+ the definitions of the locals they read); %d of %d top-level statements' % (regex, len(chosen), len(body))})
        return frame.locals

    def exec_slice(self, target, regex, local_vars):
        """Execute, with the given local variables, the first top-level statement of `target` whose source text matches
        `regex` (mechanical extraction of one statement of a function that is otherwise out of reach; everything else of the
        function is dropped - say so in TRUSTED).  Returns the locals afterwards."""
        import ast, re
        from .interp import resolve, get_func_ast, Interp, Frame, _guess_defcls
        fn = resolve(target) if isinstance(target, str) else target
        fn = getattr(fn, '__func__', fn)
        node, path, src = get_func_ast(fn)
        pat = re.compile(regex, re.S)
        for st in node.body:
            if pat.search(ast.unparse(st)):
                frame = Frame(fn.__globals__, defcls=_guess_defcls(fn), fkey=_fkey(fn), fname=fn.__qualname__)
                frame.locals.update(local_vars)
                Interp(self.ctx, frame).exec(st)
                if isinstance(target, str):
                    self.run.functions.setdefault(target, {'role': 'slice: ' + regex})
                return frame.locals
        raise Undecided('no statement of %s matches %r' % (target, regex))

    # running real code
    def call(self, target, *args, **kwargs):
        from .interp import resolve, call_value
        fn = resolve(target) if isinstance(target, str) else target
        if isinstance(target, str):
            self.run.functions.setdefault(target, {'role': 'contract'})
        return call_value(self.ctx, fn, list(args), dict(kwargs))

    def call_catch(self, target, *args, **kwargs):
        """Returns ('ok', value) or ('exc', exception_value)."""
        from .interp import PyExc
        try:
            return ('ok', self.call(target, *args, **kwargs))
        except PyExc as e:
            return ('exc', e.value)

    def exc_is(self, excval, cls):
        from .interp import exc_class
        return issubclass(exc_class(excval), cls)

    def end_path(self):
        raise PathAbort('harness ended path')


def _fkey(obj):
    f = getattr(obj, '__func__', obj)
    code = getattr(f, '__code__', None)
    if code is not None:
        cl = getattr(f, '__closure__', None)
        if cl:
            # closures created by one decorator share a code object: tell them apart by what they close over
            ids = []
            for c in cl:
                try:
                    ids.append(id(c.cell_contents))
                except ValueError:
                    ids.append(0)
            return ('code', code.co_filename, code.co_firstlineno, code.co_name, tuple(ids))
        return ('code', code.co_filename, code.co_firstlineno, code.co_name)
    return ('obj', id(obj))


# ---------------------------------------------------------------------------
# running a harness and summarising

def run_harness(h):
    run = Run(h)
    run.explore()
    from .interp import function_hashes
    obligations = {}
    for r in run.results:
        o = obligations.setdefault(r['name'], {'instances': 0, 'unsat': 0, 'sat': 0, 'unknown': 0,
                                               'expect_fail': r['expect_fail'], 'time': 0.0,
                                               'backends': {}, 'witness': None})
        o['instances'] += 1
        o[r['status']] += 1
        o['time'] += r['time']
        o['backends'][r['backend']] = o['backends'].get(r['backend'], 0) + 1
        if r['status'] != 'unsat' and o['witness'] is None:
            o['witness'] = {k: r.get(k) for k in ('status', 'model', 'model_text', 'smt2', 'reason', 'decisions', 'note')}
    return {
        'harness': h.name,
        'prop': h.prop,
        'kind': h.kind,
        'doc': h.doc,
        'paths': run.paths,
        'aborted_paths': run.aborted,
        'obligations': obligations,
        'covers': run.covers,
        'undecided': run.undecided,
        'errors': run.errors,
        'wall': run.wall,
        'functions': function_hashes(run),
        'assumptions': sorted(run.assumptions),
        'notes': run.notes,
    }
