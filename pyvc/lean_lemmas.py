"""Lemmas the contracts cite but the SMT back ends cannot prove (inductions) are stated and proved in /verif/lemmas/Lemmas.lean.
check(names) elaborates that file with `lean` (core library only), asks for the axioms each cited theorem depends on and accepts only
the three standard ones; `sorry`, an error or another axiom is a checker error (the lemmas do not depend on /repo, so never a violation)."""
import os
import re
import shutil
import subprocess
import tempfile
import time

HERE = os.path.dirname(os.path.dirname(os.path.abspath(__file__)))
SRC = os.path.join(HERE, 'lemmas', 'Lemmas.lean')
ALLOWED = {'propext', 'Classical.choice', 'Quot.sound'}


def check(names, thorough=False):
    t0 = time.time()
    out = {'file': 'lemmas/Lemmas.lean', 'lemmas': list(names), 'backend': None, 'ok': False}
    lean = shutil.which('lean')
    if lean is None:
        out['error'] = 'lean not on PATH'
        return out
    d = tempfile.mkdtemp(prefix='pyvc_lean_', dir='/dev/shm' if os.path.isdir('/dev/shm') else None)
    try:
        text = open(SRC).read()
        if re.search(r'\bsorry\b|\baxiom\b|\badmit\b|native_decide', re.sub(r'/-.*?-/', '', text, flags=re.S)):
            out['error'] = 'Lemmas.lean contains sorry / axiom / native_decide'
            return out
        f = os.path.join(d, 'Lemmas.lean')
        with open(f, 'w') as fh:
            fh.write(text + '\n' + ''.join('#print axioms %s\n' % n for n in names))
        p = subprocess.run([lean, '--root=' + d, f] + (['-o', os.path.join(d, 'Lemmas.olean')] if thorough else []), capture_output=True, text=True, timeout=600, cwd=d)
        out['backend'] = subprocess.run([lean, '--version'], capture_output=True, text=True).stdout.strip()[:60]
        if p.returncode != 0 or 'error' in p.stdout or 'sorry' in p.stdout:
            out['error'] = 'lean rejected the lemma file: ' + (p.stdout + p.stderr)[-600:]
            return out
        axioms = {}
        for n in names:
            m = re.search(r"'%s' (does not depend on any axioms|depends on axioms: \[([^\]]*)\])" % re.escape(n), p.stdout)
            if not m:
                out['error'] = 'no axiom report for %s' % n
                return out
            axioms[n] = [a.strip() for a in (m.group(2) or '').split(',') if a.strip()]
            if set(axioms[n]) - ALLOWED:
                out['error'] = '%s depends on %r' % (n, axioms[n])
                return out
        out['axioms'] = axioms
        if thorough and shutil.which('leanchecker'):
            # independent re-check of the compiled file by Lean's kernel replayer
            env = dict(os.environ, LEAN_PATH=d + ((':' + os.environ['LEAN_PATH']) if os.environ.get('LEAN_PATH') else ''))
            q = subprocess.run(['leanchecker', 'Lemmas'], capture_output=True, text=True, cwd=d, env=env, timeout=900)
            out['leanchecker'] = {'rc': q.returncode, 'output': (q.stdout + q.stderr)[-300:]}
            if q.returncode != 0:
                out['error'] = 'leanchecker rejected Lemmas.olean: ' + (q.stdout + q.stderr)[-300:]
                return out
        out['ok'] = True
        return out
    except subprocess.TimeoutExpired:
        out['error'] = 'lean timed out'
        return out
    finally:
        out['wall_s'] = round(time.time() - t0, 2)
        shutil.rmtree(d, ignore_errors=True)
