/* Arena allocator for CPython that keeps freed 16 KB blocks on a free list.
 *
 * CPython 3.11 allocates the per-thread "data stack" (where interpreter frames live) in 16 KB chunks through the object arena
 * allocator (mmap) and unmaps a chunk the moment the call depth drops below it.  A deeply recursive program whose depth keeps
 * crossing a chunk boundary (pyvc's AST interpreter does, ~2000 times per explored path) therefore issues an mmap/munmap pair each
 * time; on this sandbox's kernel those calls are expensive when many processes run (measured: 9 s alone, 60-80 s with 8 processes).
 * This shim is installed with PyObject_SetArenaAllocator and only changes where freed blocks go; it has no effect on semantics. */
#include <stddef.h>
#include <sys/mman.h>

#define BLOCK 16384
#define CACHE 256
static void *cache[CACHE];
static int ncache = 0;

void *pyvc_arena_alloc(void *ctx, size_t size)
{
    (void)ctx;
    if (size == BLOCK && ncache > 0)
        return cache[--ncache];
    void *p = mmap(NULL, size, PROT_READ | PROT_WRITE, MAP_PRIVATE | MAP_ANONYMOUS, -1, 0);
    return p == MAP_FAILED ? NULL : p;
}

void pyvc_arena_free(void *ctx, void *ptr, size_t size)
{
    (void)ctx;
    if (size == BLOCK && ncache < CACHE) {
        cache[ncache++] = ptr;
        return;
    }
    munmap(ptr, size);
}
