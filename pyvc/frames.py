"""Syntactic mod-ref scan: every write site of an attribute name in the repository package.

Used for frame obligations ("nothing else writes this state"): a new write site
anywhere in the scanned files fails the obligation.
"""
import ast
import os

REPO = os.environ.get('VERIF_REPO', '/repo')
_MUTATORS = {'append', 'add', 'pop', 'remove', 'clear', 'update', 'insert', 'extend', 'popleft', 'discard',
             'appendleft', 'setdefault', 'popitem', 'sort', 'reverse'}


def _qual_index(tree):
    out = {}

    def walk(node, prefix):
        for ch in ast.iter_child_nodes(node):
            if isinstance(ch, (ast.FunctionDef, ast.AsyncFunctionDef, ast.ClassDef)):
                q = prefix + [ch.name]
                for n in ast.walk(ch):
                    out.setdefault(id(n), '.'.join(q))
                walk(ch, q)
            else:
                walk(ch, prefix)
    # innermost wins: process so that deeper definitions overwrite
    def assign(node, prefix):
        for ch in ast.iter_child_nodes(node):
            if isinstance(ch, (ast.FunctionDef, ast.AsyncFunctionDef, ast.ClassDef)):
                q = prefix + [ch.name]
                for n in ast.walk(ch):
                    out[id(n)] = '.'.join(q)
                assign(ch, q)
            else:
                assign(ch, prefix)
    assign(tree, [])
    return out


def write_sites(attr, files=None, package='cassandra'):
    """[(relative file, enclosing qualname, lineno, kind)] for every store/augassign/delete/mutating call on `<expr>.attr`."""
    root = os.path.join(REPO, package)
    paths = []
    if files:
        paths = [os.path.join(REPO, f) for f in files]
    else:
        for d, _, fs in os.walk(root):
            for f in fs:
                if f.endswith('.py'):
                    paths.append(os.path.join(d, f))
    res = []
    for p in sorted(paths):
        try:
            tree = ast.parse(open(p).read(), p)
        except SyntaxError:
            continue
        q = _qual_index(tree)
        rel = os.path.relpath(p, REPO)
        for n in ast.walk(tree):
            if isinstance(n, ast.Attribute) and n.attr == attr and isinstance(n.ctx, (ast.Store, ast.Del)):
                res.append((rel, q.get(id(n), '<module>'), n.lineno, 'store'))
            elif isinstance(n, ast.Call) and isinstance(n.func, ast.Attribute) and n.func.attr in _MUTATORS \
                    and isinstance(n.func.value, ast.Attribute) and n.func.value.attr == attr:
                res.append((rel, q.get(id(n), '<module>'), n.lineno, 'call:' + n.func.attr))
            elif isinstance(n, ast.Subscript) and isinstance(n.ctx, (ast.Store, ast.Del)) \
                    and isinstance(n.value, ast.Attribute) and n.value.attr == attr:
                res.append((rel, q.get(id(n), '<module>'), n.lineno, 'item-store'))
            elif isinstance(n, ast.Call) and isinstance(n.func, ast.Name) and n.func.id in ('setattr', 'delattr') \
                    and len(n.args) >= 2 and isinstance(n.args[1], ast.Constant) and n.args[1].value == attr:
                res.append((rel, q.get(id(n), '<module>'), n.lineno, 'setattr'))
    return res


def _references(name, package='cassandra'):
    """[(relative file, enclosing qualname)] of every use of the identifier `name` (a Name or an attribute access) other than its own definition"""
    root = os.path.join(REPO, package)
    res = []
    for d, _, fs in os.walk(root):
        for f in fs:
            if not f.endswith('.py'):
                continue
            p = os.path.join(d, f)
            try:
                src = open(p).read()
                if name not in src:
                    continue
                tree = ast.parse(src, p)
            except SyntaxError:
                continue
            q = _qual_index(tree)
            rel = os.path.relpath(p, REPO)
            for n in ast.walk(tree):
                if (isinstance(n, ast.Name) and n.id == name) or (isinstance(n, ast.Attribute) and n.attr == name):
                    res.append((rel, q.get(id(n), '<module>')))
    return res


def frame_ok(attr, allowed, files=None):
    """(ok, offending sites, all sites): every write site of `attr` lies in one of the `allowed` 'file::qualname' entries - or in a private helper
    (name starting with an underscore) that is used by nothing but allowed sites (and other such helpers): extracting a few statements of an allowed
    function into a helper does not widen the frame, a write in a function somebody else can call does."""
    allowed = set(allowed)
    sites = write_sites(attr, files)
    pending = [(rel, qn, ln, kind) for rel, qn, ln, kind in sites if '%s::%s' % (rel, qn) not in allowed]
    accepted = set()
    changed = True
    while changed and pending:
        changed = False
        for rel, qn, ln, kind in list(pending):
            name = qn.split('.')[-1]
            if not name.startswith('_') or name.startswith('__'):
                continue
            refs = [r for r in _references(name) if '%s::%s' % r != '%s::%s' % (rel, qn)]
            if refs and all(('%s::%s' % r) in allowed or ('%s::%s' % r) in accepted for r in refs):
                accepted.add('%s::%s' % (rel, qn))
                pending = [x for x in pending if '%s::%s' % (x[0], x[1]) != '%s::%s' % (rel, qn)]
                changed = True
    bad = ['%s::%s:%d(%s)' % (rel, qn, ln, kind) for rel, qn, ln, kind in pending]
    return (not bad), bad, sites
