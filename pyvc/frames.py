"""Syntactic mod-ref scan: every write site of an attribute name in the repository package.

Used for frame obligations ("nothing else writes this state"): a new write site
anywhere in the scanned files fails the obligation.
"""
import ast
import os

REPO = os.environ.get('VERIF_REPO', '/repo')
_MUTATORS = {'append', 'add', 'pop', 'remove', 'clear', 'update', 'insert', 'extend', 'popleft', 'discard',
             'appendleft', 'setdefault', 'popitem', 'sort', 'reverse'}


def _qual_index(tree):
    out = {}

    def walk(node, prefix):
        for ch in ast.iter_child_nodes(node):
            if isinstance(ch, (ast.FunctionDef, ast.AsyncFunctionDef, ast.ClassDef)):
                q = prefix + [ch.name]
                for n in ast.walk(ch):
                    out.setdefault(id(n), '.'.join(q))
                walk(ch, q)
            else:
                walk(ch, prefix)
    # innermost wins: process so that deeper definitions overwrite
    def assign(node, prefix):
        for ch in ast.iter_child_nodes(node):
            if isinstance(ch, (ast.FunctionDef, ast.AsyncFunctionDef, ast.ClassDef)):
                q = prefix + [ch.name]
                for n in ast.walk(ch):
                    out[id(n)] = '.'.join(q)
                assign(ch, q)
            else:
                assign(ch, prefix)
    assign(tree, [])
    return out


def write_sites(attr, files=None, package='cassandra'):
    """[(relative file, enclosing qualname, lineno, kind)] for every store/augassign/delete/mutating call on `<expr>.attr`."""
    root = os.path.join(REPO, package)
    paths = []
    if files:
        paths = [os.path.join(REPO, f) for f in files]
    else:
        for d, _, fs in os.walk(root):
            for f in fs:
                if f.endswith('.py'):
                    paths.append(os.path.join(d, f))
    res = []
    for p in sorted(paths):
        try:
            tree = ast.parse(open(p).read(), p)
        except SyntaxError:
            continue
        q = _qual_index(tree)
        rel = os.path.relpath(p, REPO)
        for n in ast.walk(tree):
            if isinstance(n, ast.Attribute) and n.attr == attr and isinstance(n.ctx, (ast.Store, ast.Del)):
                res.append((rel, q.get(id(n), '<module>'), n.lineno, 'store'))
            elif isinstance(n, ast.Call) and isinstance(n.func, ast.Attribute) and n.func.attr in _MUTATORS \
                    and isinstance(n.func.value, ast.Attribute) and n.func.value.attr == attr:
                res.append((rel, q.get(id(n), '<module>'), n.lineno, 'call:' + n.func.attr))
            elif isinstance(n, ast.Subscript) and isinstance(n.ctx, (ast.Store, ast.Del)) \
                    and isinstance(n.value, ast.Attribute) and n.value.attr == attr:
                res.append((rel, q.get(id(n), '<module>'), n.lineno, 'item-store'))
            elif isinstance(n, ast.Call) and isinstance(n.func, ast.Name) and n.func.id in ('setattr', 'delattr') \
                    and len(n.args) >= 2 and isinstance(n.args[1], ast.Constant) and n.args[1].value == attr:
                res.append((rel, q.get(id(n), '<module>'), n.lineno, 'setattr'))
    return res


def frame_ok(attr, allowed, files=None):
    """(ok, offending sites): every write site of `attr` lies in one of the `allowed` 'file::qualname' entries."""
    bad = []
    sites = write_sites(attr, files)
    for rel, qn, ln, kind in sites:
        if '%s::%s' % (rel, qn) not in allowed:
            bad.append('%s::%s:%d(%s)' % (rel, qn, ln, kind))
    return (not bad), bad, sites
