"""Connectives usable both on concrete Python values (native replay, no z3 import) and on pyvc.sym values."""


def _symbolic(*xs):
    return any(type(x).__module__.endswith('pyvc.sym') for x in xs)


def implies(a, b):
    if _symbolic(a, b):
        from . import sym
        return sym.implies(a, b)
    return (not a) or bool(b)


def and_(*xs):
    if _symbolic(*xs):
        from . import sym
        return sym.and_(*xs)
    return all(xs)


def or_(*xs):
    if _symbolic(*xs):
        from . import sym
        return sym.or_(*xs)
    return any(xs)


def not_(x):
    if _symbolic(x):
        from . import sym
        return sym.not_(x)
    return not x


def ite(c, a, b):
    if _symbolic(c, a, b):
        from . import sym
        return sym.ite(c, a, b)
    return a if c else b


def eq(a, b):
    """== that treats None structurally (None == None, None != value)."""
    if a is None or b is None:
        return a is b
    return a == b


def in_(x, options):
    return or_(*[eq(x, o) for o in options])
