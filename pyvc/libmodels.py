"""Models of builtins and library functions on symbolic values (the E-* contracts).

Each model is an exact encoding of the library semantics on the argument kinds
it accepts, and raises Unsupported otherwise.  Library behaviour encoded here is
an *assumed contract*; the probes in pyvc/probes.py exercise the real library
against the same statements under the interpreter that runs the test suite.
"""
import ast
import builtins
import collections
import logging
import operator
import random
import struct
import threading
import time
import types
import warnings

import z3

from . import sym
from .sym import (Unsupported, Sym, SBool, SInt, SBytes, SStr, SReal, SSeq, SU, is_sym, lift, as_int_term)

MISSING = object()


class SymKey(object):
    """Dictionary key wrapping a symbolic value (hash by identity; lookups go through dict_find_key)."""
    __slots__ = ('v',)

    def __init__(self, v):
        self.v = v

    def __repr__(self):
        return 'SymKey(%r)' % (self.v,)


def unwrap_key(k):
    return k.v if isinstance(k, SymKey) else k


def sobj_hashable_by_identity(o):
    from .interp import static_lookup, is_repo_function
    m = static_lookup(o.cls, '__eq__')
    return not (m is not None and isinstance(m[0], types.FunctionType) and is_repo_function(m[0]))


def _is_symbolic_key(k):
    from .interp import SObj, deep_concrete
    if isinstance(k, SObj):
        return not sobj_hashable_by_identity(k)
    return not deep_concrete(k)


def dict_find_key(ctx, d, k):
    """The key object stored in dict d that equals k (forking on symbolic equalities), or MISSING."""
    from .interp import py_eq, truth
    has_symkeys = any(isinstance(x, SymKey) for x in d)
    if not _is_symbolic_key(k) and not has_symkeys:
        try:
            return k if k in d else MISSING
        except TypeError as e:
            from .interp import PyExc
            raise PyExc(e)
    for dk in list(d):
        dv = unwrap_key(dk)
        e = py_eq(ctx, dv, k)
        if e is False:
            continue
        if e is True or truth(ctx, e):
            return dk
    return MISSING


def contains(ctx, container, item):
    from .interp import SObj, MBytes, BoundMethod, static_lookup, call_value, py_eq, truth, GenList, deep_concrete, PyExc
    if isinstance(container, MBytes):
        container = container.get()
    if isinstance(container, dict):
        return dict_find_key(ctx, container, item) is not MISSING
    if isinstance(container, (set, frozenset)):
        if not _is_symbolic_key(item):
            try:
                return item in container
            except TypeError as e:
                raise PyExc(e)
        for x in list(container):
            e = py_eq(ctx, x, item)
            if e is True or (e is not False and truth(ctx, e)):
                return True
        return False
    if isinstance(container, (list, tuple, GenList)):
        items = container.items[container.pos:] if isinstance(container, GenList) else container
        for x in items:
            if x is item:
                return True
            e = py_eq(ctx, x, item)
            if e is True or (e is not False and truth(ctx, e)):
                return True
        return False
    if isinstance(container, SStr):
        return container.contains(item)
    if isinstance(container, str):
        if isinstance(item, SStr):
            return lift(container).contains(item)
        return item in container
    if isinstance(container, (SBytes, bytes)):
        c = lift(container)
        if isinstance(item, (SInt, int)):
            return SBool(z3.Contains(c.t, z3.Unit(as_int_term(item))))
        if isinstance(item, (SBytes, bytes)):
            return SBool(z3.Contains(c.t, lift(item).t))
        raise Unsupported('bytes contains')
    if isinstance(container, SSeq):
        return SBool(z3.Contains(container.t, z3.Unit(container.unwrap(item))))
    if isinstance(container, SObj):
        m = static_lookup(container.cls, '__contains__')
        if m is not None:
            return call_value(ctx, BoundMethod(m[0], container, m[1]), [item], {})
        m = static_lookup(container.cls, '__iter__')
        if m is not None:
            from .interp import Interp, Frame
            it = call_value(ctx, BoundMethod(m[0], container, m[1]), [], {})
            return contains(ctx, list(Interp(ctx, Frame({})).iter_values(it)), item)
        raise Unsupported('in on object')
    if isinstance(container, range) and isinstance(item, SInt):
        if container.step == 1:
            return sym.and_(item >= container.start, item < container.stop)
    if deep_concrete(item):
        try:
            return item in container
        except Exception as e:
            raise PyExc(e)
    cm = getattr(type(container), '__contains__', None)
    if isinstance(cm, types.FunctionType) and '/verif/' in cm.__code__.co_filename:
        return container.__contains__(item)          # harness-defined symbolic container
    raise Unsupported('membership of symbolic value in %r' % type(container))


def opaque_str(ctx):
    return ctx.fresh_str('opaque_text', register=False)


_PCT = None


def _parse_percent(fmt):
    """Split a %-format template into literal pieces and conversion specs; None if exotic."""
    out = []
    i = 0
    lit = ''
    n = len(fmt)
    while i < n:
        c = fmt[i]
        if c != '%':
            lit += c
            i += 1
            continue
        if i + 1 < n and fmt[i + 1] == '%':
            lit += '%'
            i += 2
            continue
        j = i + 1
        key = None
        if j < n and fmt[j] == '(':
            k = fmt.index(')', j)
            key = fmt[j + 1:k]
            j = k + 1
        spec = ''
        while j < n and fmt[j] in '#0- +.0123456789*':
            spec += fmt[j]
            j += 1
        if j >= n:
            return None
        conv = fmt[j]
        out.append(('lit', lit))
        lit = ''
        out.append(('conv', key, spec, conv))
        i = j + 1
    out.append(('lit', lit))
    return out


def format_percent(ctx, fmt, args):
    from .interp import deep_concrete, PyExc
    if deep_concrete(fmt) and deep_concrete(args):
        try:
            return fmt % args
        except Exception as e:
            raise PyExc(e)
    if isinstance(fmt, bytes):
        raise Unsupported('bytes % symbolic')
    if isinstance(fmt, SStr):
        return opaque_str(ctx)
    parts = _parse_percent(fmt)
    if parts is None:
        return opaque_str(ctx)
    if isinstance(args, dict):
        get = lambda key, idx: args[key]
    else:
        tup = args if isinstance(args, tuple) else (args,)
        get = lambda key, idx: tup[idx]
    res = ''
    idx = 0
    for p in parts:
        if p[0] == 'lit':
            res = res + p[1]
            continue
        _, key, spec, conv = p
        try:
            v = get(key, idx)
        except (IndexError, KeyError):
            py = TypeError('not enough arguments for format string')
            raise PyExc(py)
        idx += 1
        if conv == 's' and spec == '' and isinstance(v, (SStr, str)):
            res = res + v
        elif deep_concrete(v):
            try:
                res = res + (('%' + spec + conv) % (v,))
            except Exception as e:
                raise PyExc(e)
        elif conv in 'di' and spec == '' and isinstance(v, (SInt,)):
            res = res + int_to_str(v)
        else:
            return opaque_str(ctx)
    return res


def int_to_str(v):
    t = as_int_term(v)
    return SStr(z3.If(t >= 0, z3.IntToStr(t), z3.Concat(z3.StringVal('-'), z3.IntToStr(-t))))


def sym_binop(ctx, op, a, b):
    from .interp import _BINOPS, PyExc, _ENGINE_EXC
    f = _BINOPS[type(op)]
    if isinstance(op, ast.Mult) and isinstance(a, (bytes, str, list, tuple)) and isinstance(b, SInt):
        c = sym.concrete_int(b)
        if c is None:
            raise Unsupported('sequence * symbolic int')
        return a * c
    if isinstance(op, ast.Mult) and isinstance(b, (bytes, str, list, tuple)) and isinstance(a, SInt):
        c = sym.concrete_int(a)
        if c is None:
            raise Unsupported('sequence * symbolic int')
        return b * c
    if isinstance(op, ast.LShift) and isinstance(a, int) and isinstance(b, SInt):
        return pow2_sym(ctx, b) * a
    if isinstance(op, ast.Pow) and isinstance(a, int) and a == 2 and isinstance(b, SInt):
        return pow2_sym(ctx, b)
    if isinstance(op, ast.Pow) and isinstance(a, SReal):
        c = sym.concrete_int(b)
        if c is not None and 0 <= c <= 8:
            r = SReal(z3.RealVal(1))
            for _ in range(c):
                r = r * a
            return r
    if isinstance(op, ast.Add) and isinstance(a, (list, tuple)) and isinstance(b, (list, tuple)):
        return a + b
    try:
        return f(a, b)
    except _ENGINE_EXC:
        raise
    except TypeError as e:
        raise Unsupported('operator %s on %s / %s: %s' % (type(op).__name__, type(a).__name__, type(b).__name__, e))
    except Exception as e:
        raise PyExc(e)


_POW2 = z3.Function('pow2', z3.IntSort(), z3.IntSort())


def pow2_sym(ctx, k):
    """2**k for symbolic k >= 0 as an uninterpreted function with ground unfoldings."""
    c = sym.concrete_int(k)
    if c is not None and 0 <= c <= 100000:
        return SInt(z3.IntVal(1 << c))
    kt = as_int_term(k)
    if ctx.branch(kt < 0):
        from .interp import py_raise
        py_raise(ValueError('negative shift count'))
    t = _POW2(kt)
    ctx.assume(z3.And(t >= 1, _POW2(z3.IntVal(0)) == 1,
                      z3.Implies(kt >= 1, t == 2 * _POW2(kt - 1)),
                      _POW2(kt + 1) == 2 * t), silent=True)
    return SInt(t)


def seq_compare(ctx, op, a, b):
    """Lexicographic comparison of Python tuples/lists with symbolic elements."""
    from .interp import py_eq, truth, _CMPOPS
    f = _CMPOPS[type(op)]
    for x, y in zip(a, b):
        e = py_eq(ctx, x, y)
        if e is True or (e is not False and truth(ctx, e)):
            continue
        strict = {ast.Lt: operator.lt, ast.LtE: operator.lt, ast.Gt: operator.gt, ast.GtE: operator.gt}[type(op)]
        return strict(x, y)
    return f(len(a), len(b))


def list_slice_sym(ctx, o, k):
    from .interp import Interp
    n = len(o)

    def conc(v, default):
        if v is None:
            return default
        c = sym.concrete_int(v)
        if c is not None:
            return c
        for i in range(-n - 1, n + 2):
            if ctx.branch(as_int_term(v) == i):
                return i
        # outside [-n-1, n+1]: clamps like the extreme
        return n + 1 if ctx.branch(as_int_term(v) > 0) else -n - 1
    if k.step is not None and sym.concrete_int(k.step) is None:
        raise Unsupported('symbolic slice step')
    return o[slice(conc(k.start, None), conc(k.stop, None), sym.concrete_int(k.step) if k.step is not None else None)]


# ---------------------------------------------------------------------------
# locks

class LockModel(object):
    """A lock with a declared invariant over protected state.

    on_acquire(ctx) havocs the protected fields and assumes the invariant;
    on_release(ctx, exc) asserts the invariant again.  A re-entrant acquisition
    (depth > 0) does neither.
    """

    def __init__(self, name, on_acquire=None, on_release=None, reentrant=True):
        self.name = name
        self.on_acquire = on_acquire
        self.on_release = on_release
        self.depth = 0
        self.reentrant = reentrant
        self.acquisitions = 0

    def enter(self, ctx):
        if self.depth == 0:
            self.acquisitions += 1
            if self.on_acquire:
                self.on_acquire(ctx)
        elif not self.reentrant:
            raise Unsupported('self-deadlock on non-reentrant lock %s' % self.name)
        self.depth += 1
        return self

    def exit(self, ctx, exc):
        self.depth -= 1
        if self.depth == 0 and self.on_release:
            self.on_release(ctx, exc)
        return False

    # explicit acquire/release calls
    def acquire(self, *a, **k):
        from .engine import cur
        self.enter(cur())
        return True

    def release(self):
        from .engine import cur
        self.exit(cur(), None)

    def locked(self):
        return self.depth > 0


# ---------------------------------------------------------------------------
# methods on symbolic values

class _M(object):
    """A model callable (marks it as safe to call with symbolic arguments)."""

    def __init__(self, f, name='model'):
        self.f = f
        self.__name__ = name

    def __call__(self, *a, **k):
        return self.f(*a, **k)


_MODELS_BY_ID = {}


def register(obj):
    def deco(f):
        _MODELS_BY_ID[id(obj)] = (obj, f)
        return f
    return deco


def lookup_model(fn):
    if isinstance(fn, _M):
        return lambda ctx, *a, **k: fn.f(*a, **k)
    ent = _MODELS_BY_ID.get(id(fn))
    if ent is not None and ent[0] is fn:
        return ent[1]
    # bound methods of struct.Struct instances
    slf = getattr(fn, '__self__', None)
    if isinstance(slf, _re.Pattern) and isinstance(fn, types.BuiltinFunctionType) and fn.__name__ in ('match', 'fullmatch'):
        return lambda ctx, text, *a: regex_match(ctx, slf, text, fn.__name__ == 'fullmatch', *a)
    if isinstance(slf, struct.Struct) and isinstance(fn, types.BuiltinFunctionType):
        nm = fn.__name__
        if nm == 'pack':
            return lambda ctx, *a: struct_pack(ctx, slf.format, a)
        if nm == 'unpack':
            return lambda ctx, b: struct_unpack(ctx, slf.format, b, 0, exact=True)
        if nm == 'unpack_from':
            return lambda ctx, b, offset=0: struct_unpack(ctx, slf.format, b, offset, exact=False)
    if isinstance(slf, logging.Logger) or isinstance(slf, logging.LoggerAdapter):
        return lambda ctx, *a, **k: None          # A-LOG: arguments were evaluated by the caller
    if isinstance(fn, types.BuiltinFunctionType) and isinstance(slf, (list, collections.deque)):
        return None
    if isinstance(fn, types.BuiltinFunctionType) and isinstance(slf, dict):
        return _dict_method(slf, fn.__name__)
    if isinstance(fn, types.BuiltinFunctionType) and isinstance(slf, set):
        return _set_method(slf, fn.__name__)
    if isinstance(fn, types.MethodType) and isinstance(slf, LockModel):
        return lambda ctx, *a, **k: fn(*a, **k)
    if isinstance(fn, (types.BuiltinFunctionType, types.MethodDescriptorType)) and isinstance(slf, (str, bytes)):
        return _strbytes_method(slf, fn.__name__)
    return None


def native_ok_with_sym(fn, args, kwargs):
    slf = getattr(fn, '__self__', None)
    if isinstance(fn, types.BuiltinFunctionType) and isinstance(slf, (list, collections.deque)):
        return fn.__name__ in ('append', 'extend', 'pop', 'insert', 'reverse', 'clear', 'copy', 'appendleft',
                               'popleft', 'index', 'count', 'remove')
    return False


def _dict_method(d, name):
    from .interp import PyExc, deep_concrete

    def get(ctx, k, default=None):
        kk = dict_find_key(ctx, d, k)
        return default if kk is MISSING else d[kk]

    def pop(ctx, k, *default):
        kk = dict_find_key(ctx, d, k)
        if kk is MISSING:
            if default:
                return default[0]
            raise PyExc(KeyError(k if deep_concrete(k) else 'symbolic key'))
        return d.pop(kk)

    def setdefault(ctx, k, default=None):
        kk = dict_find_key(ctx, d, k)
        if kk is MISSING:
            d[SymKey(k) if _is_symbolic_key(k) else k] = default
            return default
        return d[kk]

    def keys(ctx):
        return [unwrap_key(k) for k in d.keys()]

    def items(ctx):
        return [(unwrap_key(k), v) for k, v in d.items()]

    def values(ctx):
        return list(d.values())

    def update(ctx, *a, **kw):
        for src in a:
            pairs = [(unwrap_key(k), v) for k, v in src.items()] if isinstance(src, dict) else list(src)
            for k, v in pairs:
                kk = dict_find_key(ctx, d, k)
                d[(SymKey(k) if _is_symbolic_key(k) else k) if kk is MISSING else kk] = v
        for k, v in kw.items():
            d[k] = v

    def copy(ctx):
        return type(d)(d) if type(d) is dict else d.copy()

    def clear(ctx):
        d.clear()

    def popitem(ctx):
        try:
            k, v = d.popitem()
        except KeyError as e:
            raise PyExc(e)
        return (unwrap_key(k), v)

    table = dict(get=get, pop=pop, setdefault=setdefault, keys=keys, items=items, values=values,
                 update=update, copy=copy, clear=clear, popitem=popitem)
    return table.get(name)


def _set_method(s, name):
    from .interp import PyExc, deep_concrete

    def need_concrete(x):
        if _is_symbolic_key(x):
            raise Unsupported('set.%s with symbolic element' % name)

    def add(ctx, x):
        need_concrete(x)
        s.add(x)

    def discard(ctx, x):
        need_concrete(x)
        s.discard(x)

    def remove(ctx, x):
        need_concrete(x)
        try:
            s.remove(x)
        except KeyError as e:
            raise PyExc(e)
    table = dict(add=add, discard=discard, remove=remove)
    return table.get(name)


def _strbytes_method(slf, name):
    """Methods of concrete str/bytes receiving symbolic arguments."""
    from .interp import deep_concrete

    def m(ctx, *a, **k):
        if name == 'join' and len(a) == 1 and not isinstance(a[0], (str, bytes)):
            # the items of a generator / list may be symbolic although the iterable object itself is an ordinary Python object
            from .interp import Interp, Frame
            a = (list(Interp(ctx, Frame({})).iter_values(a[0])),)
        if deep_concrete(a) and deep_concrete(k):
            from .interp import PyExc
            try:
                return getattr(slf, name)(*a, **k)
            except Exception as e:
                raise PyExc(e)
        return sym_method(ctx, lift(slf), name)(*a, **k)
    return m


def sym_method(ctx, obj, name):
    from .interp import MBytes, py_raise, PyExc, Interp, Frame
    if isinstance(obj, MBytes):
        def append(x):
            obj.content = obj.get() + SBytes(z3.Unit(as_int_term(x)))

        def extend(x):
            obj.content = obj.get() + (x.get() if isinstance(x, MBytes) else lift(x))

        def reverse():
            c = obj.content
            if isinstance(c, (bytes, bytearray)):
                obj.content = bytes(reversed(c))
                return
            obj.content = seq_reverse(ctx, c)
        table = dict(append=append, extend=extend, reverse=reverse)
        if name in table:
            return _M(table[name], name)
        return sym_method(ctx, obj.get(), name)
    if isinstance(obj, SBytes):
        def decode(encoding='utf-8', errors='strict'):
            return codec_decode(ctx, obj, encoding)

        def startswith(p):
            return SBool(z3.PrefixOf(lift(p).t, obj.t))

        def endswith(p):
            return SBool(z3.SuffixOf(lift(p).t, obj.t))

        def join(items):
            items = list(Interp(ctx, Frame({})).iter_values(items))
            r = SBytes(z3.Empty(sym.ByteSeq))
            for i, x in enumerate(items):
                if i:
                    r = r + obj
                r = r + lift(x.get() if isinstance(x, MBytes) else x)
            return r

        def tobytes():
            return obj
        table = dict(decode=decode, startswith=startswith, endswith=endswith, join=join, tobytes=tobytes)
        if name in table:
            return _M(table[name], name)
        raise Unsupported('bytes.%s on symbolic value' % name)
    if isinstance(obj, SStr):
        def encode(encoding='utf-8', errors='strict'):
            return codec_encode(ctx, obj, encoding)

        def replace(a, b):
            # Python str.replace replaces all occurrences
            return SStr(str_replace_all(obj.t, lift(a).t, lift(b).t))

        def startswith(p):
            return SBool(z3.PrefixOf(lift(p).t, obj.t))

        def endswith(p):
            return SBool(z3.SuffixOf(lift(p).t, obj.t))

        def join(items):
            items = list(Interp(ctx, Frame({})).iter_values(items))
            r = SStr(z3.StringVal(''))
            for i, x in enumerate(items):
                if i:
                    r = r + obj
                if not isinstance(x, (SStr, str)):
                    py_raise(TypeError('sequence item: expected str instance'))
                r = r + x
            return r

        def fmt(*a, **k):
            return opaque_str(ctx)

        def lower():
            return str_lower(ctx, obj)

        def find(sub):
            return SInt(z3.IndexOf(obj.t, lift(sub).t, 0))
        table = dict(encode=encode, replace=replace, startswith=startswith, endswith=endswith, join=join,
                     format=fmt, lower=lower, find=find)
        if name in table:
            return _M(table[name], name)
        raise Unsupported('str.%s on symbolic value' % name)
    if isinstance(obj, SInt):
        if name == 'bit_length':
            return _M(lambda: bit_length(ctx, obj), 'bit_length')
        if name == 'real':
            return obj
        if not hasattr(0, name):
            py_raise(AttributeError("'int' object has no attribute '%s'" % name))
    if isinstance(obj, SSeq):
        def index(x):
            raise Unsupported('index on symbolic sequence')
        if name == 'index':
            return _M(index)
    if isinstance(obj, SU):
        py_raise(AttributeError("opaque object has no attribute '%s'" % name))
    raise Unsupported('attribute %s on %s' % (name, type(obj).__name__))


_REV = z3.Function('seq_rev', sym.ByteSeq, sym.ByteSeq)


def _flatten_units(t):
    """If the sequence term is a concatenation of unit/empty terms return the element terms, else None."""
    t = z3.simplify(t)
    out = []

    def walk(e):
        k = e.decl().kind()
        if k == z3.Z3_OP_SEQ_EMPTY:
            return True
        if k == z3.Z3_OP_SEQ_UNIT:
            out.append(e.arg(0))
            return True
        if k == z3.Z3_OP_SEQ_CONCAT:
            return all(walk(c) for c in e.children())
        return False
    return out if walk(t) else None


def seq_reverse(ctx, b):
    """Reversal of a byte sequence: exact when its length is fixed on this path, otherwise an uninterpreted
    function with the ground facts len(rev x) == len x, rev(rev x) == x, first/last exchange."""
    t = lift(b).t
    elems = sym.flatten_units(t)
    if elems is None:
        elems = sym.flatten_units(z3.simplify(t))
    if elems is not None:
        if not elems:
            return SBytes(z3.Empty(sym.ByteSeq))
        units = [z3.Unit(e) for e in reversed(elems)]
        return SBytes(units[0] if len(units) == 1 else z3.Concat(*units))
    r = _REV(t)
    n = z3.Length(t)
    ctx.assume(z3.And(z3.Length(r) == n, _REV(r) == t,
                      z3.Implies(n > 0, z3.And(r[0] == t[n - 1], r[n - 1] == t[0]))), silent=True)
    return SBytes(r)


_BL = z3.Function('bit_length', z3.IntSort(), z3.IntSort())


def bit_length(ctx, v):
    """int.bit_length (of |v|): uninterpreted with threshold facts  |v| < 2^k <=> bl <= k  for k = 0..72 and the
    general characterisation through pow2 above that."""
    c = sym.concrete_int(v)
    if c is not None:
        return c.bit_length()
    vt = as_int_term(v)
    a = z3.If(vt >= 0, vt, -vt)
    b = _BL(a)
    facts = [b >= 0, (a == 0) == (b == 0)]
    for k in range(0, 73):
        facts.append((a < (1 << k)) == (b <= k))
    ctx.assume(z3.And(*facts), silent=True)
    if not sym.proves(ctx, a < (1 << 72)):
        p = _POW2(b)
        pm = _POW2(b - 1)
        ctx.assume(z3.Implies(a > 0, z3.And(pm <= a, a < p, p == 2 * pm, pm >= 1)), silent=True)
    return SInt(b)


def str_replace_all(s, a, b):
    try:
        return z3.ReplaceAll(s, a, b)
    except AttributeError:
        f = z3.Function('str.replace_all', z3.StringSort(), z3.StringSort(), z3.StringSort(), z3.StringSort())
        return f(s, a, b)


_LOWER = z3.Function('py_lower', z3.StringSort(), z3.StringSort())


import re as _re


class MatchModel(object):
    """the (truthy) result of a successful symbolic regex match; groups are not modelled"""


_ND_RANGES = None


def _unicode_decimal_ranges():
    """[(lo, hi)] code point ranges of the characters str patterns match with \\d (general category Nd), limited to what z3's character sort holds"""
    global _ND_RANGES
    if _ND_RANGES is None:
        import unicodedata
        out, start, prev = [], None, None
        for cp in range(0x30000):
            if unicodedata.category(chr(cp)) == 'Nd':
                if start is None:
                    start = cp
                prev = cp
            elif start is not None:
                out.append((start, prev))
                start = None
        _ND_RANGES = out
    return _ND_RANGES


def _regex_to_z3(pat):
    """A small regex subset as a z3 regular expression anchored at the start: literals, character classes with ranges, the quantifiers * + ?,
    a leading ^, a trailing $ (Python semantics: end of string or just before a final newline) or \\Z (end of string).  Returns (regex, anchored_end)
    or None when the pattern uses anything else."""
    i, n = 0, len(pat)
    if pat.startswith('^'):
        i = 1
    parts = []
    end = None
    while i < n:
        c = pat[i]
        if c == '$' and i == n - 1:
            end = 'dollar'
            i += 1
            break
        if c == '\\' and pat[i:i + 2] == '\\Z' and i == n - 2:
            end = 'Z'
            i += 2
            break
        if c == '[':
            j = pat.index(']', i + 1)
            body = pat[i + 1:j]
            if body.startswith('^'):
                return None
            alts, k = [], 0
            while k < len(body):
                if body[k] == '\\':
                    # class escapes of a str pattern (re.UNICODE): \d is every Unicode decimal digit, \w adds letters - only \d and escaped punctuation are modelled
                    if body[k + 1:k + 2] == 'd':
                        alts.extend(z3.Range(chr(lo), chr(hi)) if lo != hi else z3.Re(chr(lo)) for lo, hi in _unicode_decimal_ranges())
                    elif body[k + 1:k + 2] and not body[k + 1].isalnum():
                        alts.append(z3.Re(body[k + 1]))
                    else:
                        return None
                    k += 2
                    continue
                if k + 2 < len(body) and body[k + 1] == '-':
                    alts.append(z3.Range(body[k], body[k + 2]))
                    k += 3
                else:
                    alts.append(z3.Re(body[k]))
                    k += 1
            atom = alts[0] if len(alts) == 1 else z3.Union(*alts)
            i = j + 1
        elif c in '.()|{}\\^$*+?':
            return None
        else:
            atom = z3.Re(c)
            i += 1
        if i < n and pat[i] in '*+?':
            atom = {'*': z3.Star, '+': z3.Plus, '?': z3.Option}[pat[i]](atom)
            i += 1
        parts.append(atom)
    if i != n:
        return None
    if end == 'dollar':
        parts.append(z3.Option(z3.Re('\n')))
    if not parts:
        rx = z3.Re('')
    else:
        rx = parts[0] if len(parts) == 1 else z3.Concat(*parts)
    return rx, end is not None


def regex_match(ctx, pattern, text, full, *a):
    """E-STR: re.Pattern.match / fullmatch on a symbolic string for the regex subset of _regex_to_z3 (forks on membership)"""
    from .interp import deep_concrete, PyExc
    if deep_concrete(text) and deep_concrete(a):
        try:
            return getattr(pattern, 'fullmatch' if full else 'match')(text, *a)
        except Exception as e:
            raise PyExc(e)
    if a or not isinstance(text, SStr) or pattern.flags & ~_re.UNICODE:
        raise Unsupported('regex match with flags / positions on a symbolic string')
    tr = _regex_to_z3(pattern.pattern)
    if tr is None:
        raise Unsupported('regex %r is outside the modelled subset' % pattern.pattern)
    rx, anchored = tr
    if not anchored and not full:
        rx = z3.Concat(rx, z3.Full(z3.ReSort(z3.StringSort())))
    return MatchModel() if ctx.branch(z3.InRe(text.t, rx)) else None


def str_lower(ctx, s):
    """str.lower(): uninterpreted, with the facts that it preserves length on ASCII and is idempotent (ground)."""
    t = _LOWER(s.t)
    ctx.assume(_LOWER(t) == t, silent=True)
    # E-STR: a string of ASCII characters none of which is an upper-case letter is its own lower()
    no_upper_ascii = z3.Star(z3.Union(z3.Range(chr(0), '@'), z3.Range('[', chr(127))))
    ctx.assume(z3.Implies(z3.InRe(s.t, no_upper_ascii), t == s.t), silent=True)
    return SStr(t)


# codecs: uninterpreted inverse pair (E-CODEC)
_ENC = {}


def _codec_funcs(encoding):
    e = encoding.lower().replace('-', '').replace('_', '')
    if e not in _ENC:
        _ENC[e] = (z3.Function('encode_' + e, z3.StringSort(), sym.ByteSeq),
                   z3.Function('decode_' + e, sym.ByteSeq, z3.StringSort()),
                   z3.Function('valid_' + e, sym.ByteSeq, z3.BoolSort()))
    return _ENC[e]


def codec_encode(ctx, s, encoding):
    if not isinstance(encoding, str):
        raise Unsupported('symbolic encoding name')
    enc, dec, valid = _codec_funcs(encoding)
    st = lift(s).t
    b = enc(st)
    # E-CODEC: decode(encode(s)) == s and the result is valid; ascii may raise for non-ascii text
    e = encoding.lower().replace('-', '').replace('_', '')
    if e in ('ascii', 'usascii'):
        isascii = z3.Function('is_ascii_text', z3.StringSort(), z3.BoolSort())
        if not ctx.branch(isascii(st)):
            from .interp import py_raise
            py_raise(UnicodeEncodeError('ascii', 'x', 0, 1, 'ordinal not in range(128)'))
        ctx.assume(z3.Length(b) == z3.Length(st), silent=True)
    ctx.assume(z3.And(dec(b) == st, valid(b), z3.Length(b) >= z3.Length(st),
                      z3.Implies(z3.Length(st) == 0, z3.Length(b) == 0)), silent=True)
    return SBytes(b)


def codec_decode(ctx, b, encoding):
    if not isinstance(encoding, str):
        raise Unsupported('symbolic encoding name')
    enc, dec, valid = _codec_funcs(encoding)
    bt = lift(b).t
    # bytes that are (after simplification) a literal are decoded by the real codec
    from .engine import _seq_items
    lit = _seq_items(bt)
    if lit is not None and all(0 <= x <= 255 for x in lit):
        try:
            return bytes(lit).decode(encoding)
        except Exception as e:
            from .interp import PyExc
            raise PyExc(e)
    if not ctx.branch(valid(bt)):
        from .interp import py_raise
        py_raise(UnicodeDecodeError(encoding, b'x', 0, 1, 'invalid'))
    s = dec(bt)
    ctx.assume(enc(s) == bt, silent=True)
    return SStr(s)


# ---------------------------------------------------------------------------
# struct (E-STRUCT)

_FMT_WIDTH = {'b': (1, True), 'B': (1, False), 'h': (2, True), 'H': (2, False), 'i': (4, True), 'I': (4, False),
              'l': (4, True), 'L': (4, False), 'q': (8, True), 'Q': (8, False)}


def _parse_struct(fmt):
    if isinstance(fmt, bytes):
        fmt = fmt.decode()
    if not fmt or fmt[0] not in '<>!=@':
        # native mode: byte order, size and alignment only matter for multi-byte codes - a format of single-byte codes reads the same in every mode
        if all(c in 'bBxs' or c.isdigit() for c in fmt):
            fmt = '>' + fmt
        else:
            raise Unsupported('struct format without explicit byte order: %r' % (fmt,))
    if fmt[0] in '=@':
        raise Unsupported('struct format in native byte order: %r' % (fmt,))
    big = fmt[0] in '>!'
    items = []
    num = ''
    for c in fmt[1:]:
        if c.isdigit():
            num += c
            continue
        cnt = int(num) if num else 1
        num = ''
        if c == 's':
            items.append(('s', cnt))
        elif c == 'x':
            items.append(('x', cnt))
        elif c in _FMT_WIDTH:
            for _ in range(cnt):
                items.append((c, 1))
        elif c in 'fd':
            for _ in range(cnt):
                items.append((c, 1))
        else:
            raise Unsupported('struct code %r' % c)
    return big, items


_F_PACK = {}


def _float_funcs(code):
    if code not in _F_PACK:
        w = 4 if code == 'f' else 8
        _F_PACK[code] = (z3.Function('fpack_' + code, z3.RealSort(), sym.ByteSeq),
                         z3.Function('funpack_' + code, sym.ByteSeq, z3.RealSort()), w)
    return _F_PACK[code]


def struct_pack(ctx, fmt, values):
    from .interp import deep_concrete, PyExc, py_raise, MBytes
    if deep_concrete(values):
        try:
            return struct.pack(fmt, *values)
        except Exception as e:
            raise PyExc(e)
    big, items = _parse_struct(fmt)
    if len([i for i in items if i[0] != 'x']) != len(values):
        py_raise(struct.error('pack expected %d items for packing (got %d)' % (len(items), len(values))))
    out = SBytes(z3.Empty(sym.ByteSeq))
    vi = 0
    for code, cnt in items:
        if code == 'x':
            out = out + (b'\x00' * cnt)
            continue
        v = values[vi]
        vi += 1
        if code == 's':
            if isinstance(v, MBytes):
                v = v.get()
            if not isinstance(v, (SBytes, bytes)):
                py_raise(struct.error("argument for 's' must be a bytes object"))
            bv = lift(v)
            # struct pads/truncates to exactly cnt bytes
            ln = z3.Length(bv.t)
            if ctx.branch(ln == cnt):
                out = out + bv
            else:
                raise Unsupported("struct 's' with length different from count")
            continue
        if code in 'fd':
            pk, un, w = _float_funcs(code)
            if not isinstance(v, (SReal, SInt, float, int)):
                py_raise(struct.error('required argument is not a float'))
            xt = sym.to_real(v)
            bs = pk(xt)
            rt = un(bs)
            if code == 'd':
                ctx.assume(z3.And(z3.Length(bs) == 8, rt == xt), silent=True)
            else:
                ctx.assume(z3.And(z3.Length(bs) == 4, un(pk(rt)) == rt), silent=True)
            out = out + SBytes(bs)
            continue
        width, signed = _FMT_WIDTH[code]
        if not sym.is_intlike(v):
            py_raise(struct.error('required argument is not an integer'))
        vt = as_int_term(v)
        vbv = sym._bv_of_bv2int(vt)
        if vbv is not None and width == 1 and vbv.size() <= (7 if signed else 8):
            out = out + SBytes(z3.Unit(vt))          # a bit-vector byte: in range by construction
            continue
        lo, hi = (-(1 << (8 * width - 1)), (1 << (8 * width - 1)) - 1) if signed else (0, (1 << (8 * width)) - 1)
        if not ctx.branch(z3.And(vt >= lo, vt <= hi)):
            py_raise(struct.error("'%s' format requires %d <= number <= %d" % (code, lo, hi)))
        seq = sym.int_to_bytes_be(vt, width, signed)
        if not big:
            seq = _reverse_units(vt, width, signed)
        out = out + SBytes(seq)
    return out


def _zeros_sym(cnt, ln):
    raise Unsupported('struct padding')


def _reverse_units(xt, width, signed):
    if signed:
        xt = z3.If(xt < 0, xt + z3.IntVal(1 << (8 * width)), xt)
    units = [z3.Unit(sym._div_const(xt, 1 << (8 * k)) % 256) for k in range(width)]
    return units[0] if width == 1 else z3.Concat(*units)


def struct_unpack(ctx, fmt, data, offset, exact):
    from .interp import deep_concrete, PyExc, py_raise, MBytes
    if isinstance(data, MBytes):
        data = data.get()
    if deep_concrete(data) and deep_concrete(offset):
        try:
            return struct.unpack(fmt, data) if exact else struct.unpack_from(fmt, data, offset)
        except Exception as e:
            raise PyExc(e)
    if not isinstance(data, (SBytes, bytes, bytearray)):
        py_raise(TypeError('a bytes-like object is required'))
    big, items = _parse_struct(fmt)
    total = sum((_FMT_WIDTH[c][0] if c in _FMT_WIDTH else (cnt if c in 'sx' else (4 if c == 'f' else 8))) for c, cnt in items)
    d = lift(bytes(data) if isinstance(data, bytearray) else data)
    ln = z3.Length(d.t)
    off = as_int_term(offset)
    c_off = sym.concrete_int(offset)
    if not exact and c_off is not None and c_off < 0:
        # CPython: a negative offset counts from the end of the buffer; one that reaches before its start is an error
        if not ctx.branch(ln + c_off >= 0):
            py_raise(struct.error('offset %d out of range for %s-byte buffer' % (c_off, 'this')))
        off = ln + c_off
    ok = (ln == total) if exact else z3.And(off >= 0, ln - off >= total)
    if not ctx.branch(ok):
        py_raise(struct.error('unpack requires a buffer of %d bytes' % total))
    res = []
    pos = off
    for code, cnt in items:
        if code == 'x':
            pos = pos + cnt
            continue
        if code == 's':
            res.append(SBytes(z3.SubSeq(d.t, pos, cnt)))
            pos = pos + cnt
            continue
        if code in 'fd':
            pk, un, w = _float_funcs(code)
            piece = z3.SubSeq(d.t, pos, w)
            res.append(SReal(un(piece)))
            pos = pos + w
            continue
        width, signed = _FMT_WIDTH[code]
        direct = _unpack_peephole(ctx, d.t, pos, width, signed, big)
        if direct is not None:
            res.append(SInt(direct))
            pos = pos + width
            continue
        if width == 1:
            one = sym.rope_subseq(d.t, z3.simplify(pos if z3.is_expr(pos) else as_int_term(pos)), z3.IntVal(1))
            els1 = sym.flatten_units(one) if one is not None else None
            if els1 is not None and len(els1) == 1:
                e1 = els1[0]
                if sym._bv_of_bv2int(e1) is None:
                    ctx.assume(z3.And(e1 >= 0, e1 < 256), silent=True)
                res.append(SInt(z3.If(e1 >= 128, e1 - 256, e1) if signed else e1))
                pos = pos + 1
                continue
        ctx.assume(sym.byte_range_facts(d.t, pos, width), silent=True)
        if big:
            acc = sym.bytes_to_int_be(d.t, pos, width, signed)
        else:
            acc = z3.IntVal(0)
            for k in range(width - 1, -1, -1):
                acc = acc * 256 + d.t[pos + k]
            if signed:
                acc = z3.If(acc >= (1 << (8 * width - 1)), acc - (1 << (8 * width)), acc)
        res.append(SInt(acc))
        pos = pos + width
    return tuple(res)


def _unpack_peephole(ctx, seq_t, pos, width, signed, big):
    """If the `width` bytes at `pos` are exactly the big-endian digits of some term x produced by the integer packer
    (and x is provably in the type's range), unpack yields x itself: unpack(pack(x)) == x without digit arithmetic."""
    piece = sym.rope_subseq(seq_t, z3.simplify(pos if z3.is_expr(pos) else sym.as_int_term(pos)), z3.IntVal(width))
    if piece is None:
        return None
    els = sym.flatten_units(piece)
    if els is None or len(els) != width:
        return None
    if not big:
        els = list(reversed(els))
    last = els[-1]
    if not (z3.is_app(last) and last.decl().kind() == z3.Z3_OP_MOD and z3.is_int_value(last.arg(1)) and last.arg(1).as_long() == 256):
        return None
    u = last.arg(0)       # candidate unsigned value
    for k in range(width):
        want = sym._div_const(u, 1 << (8 * (width - 1 - k))) % 256
        if not els[k].eq(want):
            return None
    if signed:
        # u is If(x < 0, x + 2^N, x) for the packed x
        if z3.is_app(u) and u.decl().kind() == z3.Z3_OP_ITE:
            x = u.arg(2)
            lo, hi = -(1 << (8 * width - 1)), (1 << (8 * width - 1)) - 1
            if sym.proves(ctx, z3.And(x >= lo, x <= hi, u == z3.If(x < 0, x + (1 << (8 * width)), x))):
                return x
        return None
    if sym.proves(ctx, z3.And(u >= 0, u < (1 << (8 * width)))):
        return u
    return None


@register(struct.pack)
def _m_struct_pack(ctx, fmt, *values):
    return struct_pack(ctx, fmt, values)


import copy as _copy


@register(_copy.copy)
def _m_copy(ctx, x):
    """copy.copy: a shallow copy - for an instance of a repository class without __copy__ a new instance of the same class holding the same attribute values"""
    from .interp import SObj
    if isinstance(x, SObj):
        if any(hasattr(x.cls, m) for m in ('__copy__', '__reduce_ex__')) and any(m in vars(k) for k in x.cls.__mro__[:-1] for m in ('__copy__', '__reduce__', '__reduce_ex__', '__getstate__', '__setstate__')):
            raise Unsupported('copy.copy of %s, which customises copying' % x.cls.__name__)
        return SObj(x.cls, dict(x.attrs))
    if is_sym(x):
        return x
    return _copy.copy(x)


@register(struct.unpack)
def _m_struct_unpack(ctx, fmt, data):
    return struct_unpack(ctx, fmt, data, 0, True)


@register(struct.unpack_from)
def _m_struct_unpack_from(ctx, fmt, data, offset=0):
    return struct_unpack(ctx, fmt, data, offset, False)


# ---------------------------------------------------------------------------
# builtins

def _values(ctx, it):
    from .interp import Interp, Frame
    return list(Interp(ctx, Frame({})).iter_values(it))


@register(int.bit_length)
def _m_int_bit_length(ctx, x):
    return bit_length(ctx, x)


class MBytesIO(object):
    """io.BytesIO (E-BYTESIO): content + position; write at the position (overwriting/extending), read from it."""

    def __init__(self, content=b'', pos=0):
        self.content = content
        self.pos = pos

    def _c(self):
        return lift(self.content)


def _bio_method(ctx, bio, name):
    from .interp import MBytes, py_raise, deep_concrete

    def plen():
        return bio._c().length() if is_sym(bio.content) else len(bio.content)

    def write(data):
        if isinstance(data, MBytes):
            data = data.get()
        if not isinstance(data, (SBytes, bytes, bytearray)):
            py_raise(TypeError('a bytes-like object is required'))
        dlen = lift(data).length() if is_sym(data) else len(data)
        n = plen()
        at_end = (bio.pos == n)
        if at_end is True or (is_sym(at_end) and sym.proves(ctx, at_end)):
            if is_sym(bio.content) or is_sym(data):
                bio.content = bio._c() + data
            else:
                bio.content = bytes(bio.content) + bytes(data)
            bio.pos = bio.pos + dlen
            return dlen
        # general case: overwrite in the middle (Python clamps nothing: pads with zeros past the end - not modelled)
        if is_sym(at_end) and not sym.proves(ctx, bio.pos <= n):
            raise Unsupported('BytesIO.write beyond the end')
        c = bio._c()
        d = lift(data)
        end = bio.pos + dlen
        tail_start = sym.int_max(end, 0)
        bio.content = c[:bio.pos] + d + c[tail_start:]
        bio.pos = end
        return dlen

    def getvalue():
        return bio.content

    def getbuffer():
        return bio.content

    def tell():
        return bio.pos

    def seek(off, whence=0):
        w = sym.concrete_int(whence)
        if w == 0:
            bio.pos = off
        elif w == 1:
            bio.pos = bio.pos + off
        elif w == 2:
            bio.pos = plen() + off
        else:
            raise Unsupported('seek whence')
        return bio.pos

    def _rope_read(n):
        """read(n) resolved structurally: the content is a concatenation of segments, the position is known to be the start of segment
        `idx`, and n is (provably, under the path condition) the total length of the next few segments.  Returns the segments'
        concatenation and leaves the position a plain sum of segment lengths; None when the read does not fall on segment boundaries."""
        if not is_sym(bio.content):
            return None
        ct = bio._c().t
        st = getattr(bio, '_rope', None)
        if st is None or not st[0].eq(ct) or st[2] is not bio.pos:
            p0 = sym.concrete_int(bio.pos)
            if p0 != 0:
                return None
            st = (ct, 0, bio.pos, sym._segments(ct))
        segs, i = st[3], st[1]
        picked = []
        nc = sym.concrete_int(n)
        if nc is not None:
            if nc < 0:
                return None
            left = nc
            while left > 0:
                if i >= len(segs):
                    return None
                seg, ln = segs[i]
                lc = ln.as_long() if z3.is_int_value(ln) else None
                if lc is None:
                    # a symbolic segment: it must be (provably) exactly what is left to read
                    if not sym.proves(ctx, ln == left):
                        return None
                    lc = left
                if lc > left:
                    return None
                picked.append(seg)
                left -= lc
                i += 1
            adv = nc
        else:
            if i >= len(segs):
                return None
            nt = as_int_term(n)
            seg, ln = segs[i]
            if z3.is_int_value(ln):
                # a run of unit segments whose total is n is not resolved here
                return None
            if not (sym._is_zero(nt - ln) or sym.proves(ctx, nt == ln)):
                return None
            picked.append(seg)
            i += 1
            adv = SInt(ln)
        newpos = bio.pos + adv
        if is_sym(newpos):
            newpos = SInt(z3.simplify(newpos.t))
            c2 = sym.concrete_int(newpos)
            if c2 is not None:
                newpos = c2
        bio.pos = newpos
        bio._rope = (ct, i, newpos, segs)
        if not picked:
            return b''
        return SBytes(picked[0] if len(picked) == 1 else z3.Concat(*picked))

    def read(n=-1):
        if n is not None:
            rr = _rope_read(n)
            if rr is not None:
                return rr
        c = bio._c() if (is_sym(bio.content) or is_sym(bio.pos) or is_sym(n)) else bio.content
        if n is None or (sym.concrete_int(n) is not None and sym.concrete_int(n) < 0):
            r = c[bio.pos:]
            bio.pos = sym.int_max(plen(), bio.pos) if (is_sym(bio.pos) or is_sym(plen())) else max(plen(), bio.pos)
            return r
        if is_sym(n) and not sym.proves(ctx, n >= 0):
            raise Unsupported('read(n) with possibly negative symbolic n')
        r = c[bio.pos:bio.pos + n]
        rl = r.length() if is_sym(r) else len(r)
        bio.pos = bio.pos + rl
        return r

    def truncate(size=None):
        size = bio.pos if size is None else size
        bio.content = (bio._c() if is_sym(bio.content) or is_sym(size) else bio.content)[:size]
        return size

    def close():
        return None
    table = dict(write=write, getvalue=getvalue, tell=tell, seek=seek, read=read, truncate=truncate, close=close,
                 getbuffer=getbuffer)
    if name not in table:
        raise Unsupported('BytesIO.%s' % name)
    return _M(table[name], name)


import io as _io


@register(_io.BytesIO)
def _m_bytesio(ctx, initial=b''):
    from .interp import MBytes
    if isinstance(initial, MBytes):
        initial = initial.get()
    return MBytesIO(initial, 0)


@register(builtins.len)
def _m_len(ctx, x):
    from .interp import SObj, MBytes, BoundMethod, static_lookup, call_value, GenList, PyExc
    if isinstance(x, MBytes):
        x = x.get()
    if isinstance(x, (SBytes, SStr, SSeq)):
        n = x.length()
        c = sym.concrete_int(n)
        if c is None:
            # a harness may declare a symbolic value of a FIXED length (VC.bytes_of_length): its len() is that number, not a term
            c = getattr(ctx, 'fixed_len', {}).get(x.t.get_id())
        return n if c is None else c
    if isinstance(x, SObj):
        m = static_lookup(x.cls, '__len__')
        if m is None:
            raise PyExc(TypeError('object has no len()'))
        return call_value(ctx, BoundMethod(m[0], x, m[1]), [], {})
    if isinstance(x, GenList):
        raise PyExc(TypeError("object of type 'generator' has no len()"))
    if is_sym(x):
        raise PyExc(TypeError('object has no len()'))
    try:
        return len(x)
    except Exception as e:
        raise PyExc(e)


def _type_of(x):
    from .interp import SObj, MBytes, InterpFunction, BoundMethod
    if isinstance(x, SObj):
        return x.cls
    if isinstance(x, SBool):
        return bool
    if isinstance(x, (SInt, sym.SLow)):
        return int
    if isinstance(x, SReal):
        return float
    if isinstance(x, SBytes):
        return bytes
    if isinstance(x, SStr):
        return str
    if isinstance(x, MBytes):
        return bytearray
    if isinstance(x, SSeq):
        return tuple
    if isinstance(x, SU):
        return object
    if isinstance(x, InterpFunction):
        return types.FunctionType
    if isinstance(x, BoundMethod):
        return types.MethodType
    return type(x)


@register(builtins.type)
def _m_type(ctx, x, *rest):
    if rest:
        from .interp import deep_concrete
        if deep_concrete(rest):
            return type(x, *rest)
        raise Unsupported('dynamic type() creation')
    return _type_of(x)


@register(builtins.isinstance)
def _m_isinstance(ctx, x, t):
    ts = t if isinstance(t, tuple) else (t,)
    xt = _type_of(x)
    for k in ts:
        if isinstance(k, tuple):
            if _m_isinstance(ctx, x, k):
                return True
            continue
        try:
            if issubclass(xt, k):
                return True
        except TypeError:
            from .interp import PyExc
            raise PyExc(TypeError('isinstance() arg 2 must be a type'))
    return False


@register(builtins.issubclass)
def _m_issubclass(ctx, a, b):
    return issubclass(a, b)


@register(builtins.callable)
def _m_callable(ctx, x):
    from .interp import InterpFunction, BoundMethod, SObj, static_lookup
    if isinstance(x, (InterpFunction, BoundMethod, _M, PartialModel)):
        return True
    if isinstance(x, SObj):
        return static_lookup(x.cls, '__call__') is not None
    if isinstance(x, Sym):
        return isinstance(x, SU) and getattr(x, 'callable', False)
    return callable(x)


@register(builtins.getattr)
def _m_getattr(ctx, o, name, *default):
    from .interp import get_attr, PyExc
    if not isinstance(name, str):
        raise Unsupported('getattr with symbolic name')
    try:
        return get_attr(ctx, o, name)
    except PyExc as e:
        from .interp import exc_class
        if default and issubclass(exc_class(e.value), AttributeError):
            return default[0]
        raise


class StaticMethodModel(object):
    """staticmethod(f) / classmethod(f) applied to an interpreter callable at run time: only __func__ is modelled"""

    def __init__(self, f):
        self.__func__ = f


@register(builtins.staticmethod)
def _m_staticmethod(ctx, f):
    return StaticMethodModel(f)


@register(builtins.hasattr)
def _m_hasattr(ctx, o, name):
    from .interp import get_attr, PyExc, exc_class
    if isinstance(o, (SInt, SReal, SBool)) and isinstance(name, str):
        # a symbolic number has exactly the attributes of the Python number it stands for
        return hasattr({SInt: 0, SReal: 0.0, SBool: False}[type(o)], name)
    try:
        get_attr(ctx, o, name)
        return True
    except PyExc as e:
        if issubclass(exc_class(e.value), AttributeError):
            return False
        raise


@register(builtins.setattr)
def _m_setattr(ctx, o, name, v):
    from .interp import set_attr
    set_attr(ctx, o, name, v)


@register(builtins.id)
def _m_id(ctx, x):
    return id(x)


@register(builtins.hash)
def _m_hash(ctx, x):
    from .interp import deep_concrete
    if deep_concrete(x):
        return hash(x)
    raise Unsupported('hash of symbolic value')


@register(builtins.bool)
def _m_bool(ctx, x=False):
    from .interp import truth
    if isinstance(x, SBool):
        return x
    if isinstance(x, SInt):
        return x != 0
    return truth(ctx, x)


@register(builtins.int)
def _m_int(ctx, x=0, base=None):
    from .interp import PyExc, deep_concrete
    if isinstance(x, SInt):
        return x
    if isinstance(x, SBool):
        return SInt(as_int_term(x))
    if isinstance(x, SReal):
        # int() truncates toward zero
        fl = z3.ToInt(x.t)
        return SInt(z3.If(x.t >= 0, fl, z3.If(z3.ToReal(fl) == x.t, fl, fl + 1)))
    if isinstance(x, SStr):
        raise Unsupported('int(symbolic str)')
    if deep_concrete(x):
        try:
            return int(x) if base is None else int(x, base)
        except Exception as e:
            raise PyExc(e)
    raise Unsupported('int(%r)' % type(x))


@register(builtins.float)
def _m_float(ctx, x=0.0):
    from .interp import PyExc, deep_concrete
    if isinstance(x, SReal):
        return x
    if isinstance(x, (SInt, SBool)):
        return SReal(z3.ToReal(as_int_term(x)))
    if deep_concrete(x):
        try:
            return float(x)
        except Exception as e:
            raise PyExc(e)
    raise Unsupported('float(%r)' % type(x))


@register(builtins.str)
def _m_str(ctx, x='', *a):
    from .interp import deep_concrete, PyExc, SObj, static_lookup, BoundMethod, call_value, is_repo_function
    if isinstance(x, SStr):
        return x
    if isinstance(x, SInt):
        return int_to_str(x)
    if isinstance(x, SObj):
        for nm in ('__str__', '__repr__'):
            m = static_lookup(x.cls, nm)
            if m is not None and isinstance(m[0], types.FunctionType) and is_repo_function(m[0]):
                return call_value(ctx, BoundMethod(m[0], x, m[1]), [], {})
        return opaque_str(ctx)
    if isinstance(x, SBytes) and a:
        return codec_decode(ctx, x, a[0])
    if deep_concrete(x) and deep_concrete(a):
        try:
            return str(x, *a)
        except Exception as e:
            raise PyExc(e)
    return opaque_str(ctx)


@register(builtins.repr)
def _m_repr(ctx, x):
    from .interp import deep_concrete
    if deep_concrete(x):
        return repr(x)
    return opaque_str(ctx)


@register(builtins.bytes)
def _m_bytes(ctx, x=b'', *a):
    from .interp import MBytes, deep_concrete, PyExc
    if isinstance(x, MBytes):
        return x.get() if is_sym(x.content) else bytes(x.content)
    if isinstance(x, SBytes):
        return x
    if isinstance(x, SStr) and a:
        return codec_encode(ctx, x, a[0])
    if isinstance(x, (list, tuple)) and not deep_concrete(x):
        r = SBytes(z3.Empty(sym.ByteSeq))
        for e in x:
            et = as_int_term(e)
            if not ctx.branch(z3.And(et >= 0, et < 256)):
                raise PyExc(ValueError('bytes must be in range(0, 256)'))
            r = r + SBytes(z3.Unit(et))
        return r
    if deep_concrete(x) and deep_concrete(a):
        try:
            return bytes(x, *a)
        except Exception as e:
            raise PyExc(e)
    raise Unsupported('bytes(%r)' % type(x))


@register(builtins.bytearray)
def _m_bytearray(ctx, x=b'', *a):
    from .interp import MBytes, deep_concrete, PyExc
    if isinstance(x, MBytes):
        return MBytes(x.content)
    if isinstance(x, (SBytes,)):
        return MBytes(x)
    if deep_concrete(x) and deep_concrete(a):
        try:
            return MBytes(bytes(bytearray(x, *a)))
        except Exception as e:
            raise PyExc(e)
    raise Unsupported('bytearray(%r)' % type(x))


@register(builtins.memoryview)
def _m_memoryview(ctx, x):
    from .interp import MBytes
    if isinstance(x, MBytes):
        return x.get()
    if isinstance(x, (SBytes, bytes)):
        return x if isinstance(x, SBytes) else x
    raise Unsupported('memoryview(%r)' % type(x))


@register(builtins.tuple)
def _m_tuple(ctx, x=()):
    if isinstance(x, SSeq):
        return x
    return tuple(_values(ctx, x))


@register(builtins.list)
def _m_list(ctx, x=()):
    if isinstance(x, SSeq):
        raise Unsupported('list(symbolic sequence)')
    return list(_values(ctx, x))


@register(builtins.set)
def _m_set(ctx, x=()):
    from .interp import deep_concrete
    v = _values(ctx, x)
    if not all(not _is_symbolic_key(e) for e in v):
        raise Unsupported('set() of symbolic elements')
    return set(v)


@register(builtins.frozenset)
def _m_frozenset(ctx, x=()):
    v = _values(ctx, x)
    if not all(not _is_symbolic_key(e) for e in v):
        raise Unsupported('frozenset() of symbolic elements')
    return frozenset(v)


@register(builtins.dict)
def _m_dict(ctx, *a, **k):
    d = {}
    _dict_method(d, 'update')(ctx, *a, **k)
    return d


@register(builtins.abs)
def _m_abs(ctx, x):
    from .interp import PyExc
    try:
        return abs(x)
    except Exception as e:
        raise PyExc(e)


def _minmax(ctx, pick_less, args, kw):
    from .interp import truth, PyExc, call_value
    items = list(args) if len(args) > 1 else _values(ctx, args[0])
    key = kw.get('key')
    if not items:
        if 'default' in kw:
            return kw['default']
        raise PyExc(ValueError('arg is an empty sequence'))
    best = items[0]
    bk = call_value(ctx, key, [best], {}) if key else best
    for x in items[1:]:
        xk = call_value(ctx, key, [x], {}) if key else x
        c = (xk < bk) if pick_less else (xk > bk)
        if isinstance(c, SBool) and key is None and isinstance(x, (SInt, int)) and isinstance(best, (SInt, int)):
            best = sym.ite(c, x, best)
            bk = best
        elif isinstance(c, SBool) and key is None and isinstance(x, (SReal, SInt, int, float)) and isinstance(best, (SReal, SInt, int, float)):
            best = SReal(z3.If(c.t, sym.to_real(x), sym.to_real(best)))
            bk = best
        elif truth(ctx, c):
            best, bk = x, xk
    return best


@register(builtins.min)
def _m_min(ctx, *a, **k):
    return _minmax(ctx, True, a, k)


@register(builtins.max)
def _m_max(ctx, *a, **k):
    return _minmax(ctx, False, a, k)


@register(builtins.sum)
def _m_sum(ctx, it, start=0):
    r = start
    for x in _values(ctx, it):
        r = r + x
    return r


@register(builtins.any)
def _m_any(ctx, it):
    from .interp import truth
    for x in _values(ctx, it):
        if truth(ctx, x):
            return True
    return False


@register(builtins.all)
def _m_all(ctx, it):
    from .interp import truth
    for x in _values(ctx, it):
        if not truth(ctx, x):
            return False
    return True


@register(builtins.sorted)
def _m_sorted(ctx, it, key=None, reverse=False):
    from .interp import deep_concrete, call_value, truth
    items = _values(ctx, it)
    keys = [call_value(ctx, key, [x], {}) for x in items] if key is not None else list(items)
    if deep_concrete(keys):
        order = sorted(range(len(items)), key=lambda i: keys[i], reverse=bool(reverse))
        return [items[i] for i in order]
    # insertion sort with forking comparisons (stable)
    from .interp import PyExc

    def lt(a, b):
        from .interp import SObj, Interp, Frame
        import ast as _ast
        if isinstance(a, SObj) or isinstance(b, SObj):
            return Interp(ctx, Frame({})).compare(_ast.Lt(), a, b)      # the class's own __lt__ (e.g. total_ordering tokens)
        try:
            return a < b
        except TypeError as e:
            raise PyExc(e)
    idx = []
    for i in range(len(items)):
        j = len(idx)
        while j > 0 and truth(ctx, lt(keys[i], keys[idx[j - 1]])):
            j -= 1
        idx.insert(j, i)
    out = [items[i] for i in idx]
    if truth(ctx, reverse):
        # reverse=True keeps stability of equal elements: emulate by sorting descending stably
        idx = []
        for i in range(len(items)):
            j = len(idx)
            while j > 0 and truth(ctx, keys[i] > keys[idx[j - 1]]):
                j -= 1
            idx.insert(j, i)
        out = [items[i] for i in idx]
    return out


import itertools as _itertools


@register(_itertools.groupby)
def _m_groupby(ctx, iterable, key=None):
    """itertools.groupby: runs of CONSECUTIVE items with equal keys (the real semantics); keys must compare concretely."""
    from .interp import call_value, GenList, truth
    items = _values(ctx, iterable)
    out = []
    for x in items:
        k = call_value(ctx, key, [x], {}) if key is not None else x
        if out and truth(ctx, out[-1][0] == k):
            out[-1][1].append(x)
        else:
            out.append((k, [x]))
    return GenList([(k, GenList(g)) for k, g in out])


import heapq as _heapq


@register(_heapq.heappush)
def _m_heappush(ctx, heap, item):
    """heapq on a native list: ordering is decided by the concrete leading fields of the items."""
    from .interp import PyExc
    try:
        return _heapq.heappush(heap, item)
    except TypeError as e:
        raise PyExc(e)


@register(_heapq.heappop)
def _m_heappop(ctx, heap):
    from .interp import PyExc
    try:
        return _heapq.heappop(heap)
    except (TypeError, IndexError) as e:
        raise PyExc(e)


@register(builtins.enumerate)
def _m_enumerate(ctx, it, start=0):
    from .interp import GenList
    return GenList([(i + start, x) for i, x in enumerate(_values(ctx, it))])      # an iterator, like the real enumerate object


@register(builtins.zip)
def _m_zip(ctx, *its):
    return list(zip(*[_values(ctx, i) for i in its]))


@register(builtins.reversed)
def _m_reversed(ctx, it):
    return list(reversed(_values(ctx, it)))


@register(builtins.range)
def _m_range(ctx, *a):
    from .interp import SymRange, deep_concrete, PyExc
    if deep_concrete(a):
        try:
            return range(*a)
        except Exception as e:
            raise PyExc(e)
    if len(a) == 1:
        return SymRange(0, a[0])
    if len(a) == 2:
        return SymRange(a[0], a[1])
    st = sym.concrete_int(a[2])
    if st is not None and st > 0:
        return SymRange(a[0], a[1], st)
    raise Unsupported('range with symbolic or non-positive step')


@register(builtins.iter)
def _m_iter(ctx, it, *a):
    from .interp import GenList
    if a:
        raise Unsupported('iter(callable, sentinel)')
    if isinstance(it, GenList):
        return it
    return GenList(_values(ctx, it))


@register(builtins.next)
def _m_next(ctx, it, *default):
    from .interp import GenList, PyExc
    if not isinstance(it, GenList):
        try:
            return next(it, *default)
        except StopIteration as e:
            raise PyExc(e)
        except TypeError as e:
            raise PyExc(e)
    try:
        return next(it)
    except StopIteration as e:
        if default:
            return default[0]
        raise PyExc(e)


@register(builtins.map)
def _m_map(ctx, f, *its):
    from .interp import call_value
    return GenListOf([call_value(ctx, f, list(xs), {}) for xs in zip(*[_values(ctx, i) for i in its])])


@register(builtins.filter)
def _m_filter(ctx, f, it):
    from .interp import call_value, truth
    return GenListOf([x for x in _values(ctx, it) if truth(ctx, call_value(ctx, f, [x], {}) if f is not None else x)])


def GenListOf(items):
    from .interp import GenList
    return GenList(items)


@register(builtins.ord)
def _m_ord(ctx, c):
    if isinstance(c, SBytes):
        return c[0]
    if isinstance(c, SStr):
        raise Unsupported('ord(symbolic str)')
    from .interp import PyExc
    try:
        return ord(c)
    except Exception as e:
        raise PyExc(e)


@register(builtins.divmod)
def _m_divmod(ctx, a, b):
    from .interp import PyExc
    if is_sym(a) or is_sym(b):
        return (lift(a) // b, lift(a) % b) if not isinstance(a, (SReal, float)) else _unsupported('divmod real')
    try:
        return divmod(a, b)
    except Exception as e:
        raise PyExc(e)


def _unsupported(msg):
    raise Unsupported(msg)


@register(builtins.round)
def _m_round(ctx, x, nd=None):
    from .interp import deep_concrete
    if deep_concrete(x) and deep_concrete(nd):
        return round(x) if nd is None else round(x, nd)
    raise Unsupported('round of symbolic value')


@register(builtins.print)
def _m_print(ctx, *a, **k):
    return None


@register(builtins.vars)
def _m_vars(ctx, o):
    from .interp import SObj
    if isinstance(o, SObj):
        return o.attrs
    return vars(o)


@register(time.time)
def _m_time(ctx):
    return ctx.fresh_real('time_time', register=True)


try:
    @register(time.monotonic)
    def _m_monotonic(ctx):
        return ctx.fresh_real('time_monotonic', register=True)
except Exception:   # pragma: no cover
    pass


@register(time.sleep)
def _m_sleep(ctx, d):
    return None


@register(warnings.warn)
def _m_warn(ctx, *a, **k):
    return None


@register(random.randint)
def _m_randint(ctx, a, b):
    r = ctx.fresh_int('randint', register=True)
    ctx.assume(sym.and_(r >= a, r <= b), silent=True)
    return r


@register(random.random)
def _m_random(ctx):
    r = ctx.fresh_real('random', register=True)
    ctx.assume(sym.and_(r >= 0, r < 1), silent=True)
    return r


import itertools


class RepeatModel(object):
    """itertools.repeat(value[, times]) (E-ITER): `times` None = endless."""

    def __init__(self, value, times):
        self.value = value
        self.times = times


@register(itertools.repeat)
def _m_repeat(ctx, value, times=None):
    return RepeatModel(value, times)


def builtin_method_on_sobj(obj, name, raw):
    """Builtin slot methods reached through super() / class lookup on an SObj."""
    from .interp import SObj

    def exc_init(*a, **k):
        if isinstance(obj, SObj):
            obj.attrs['args'] = tuple(a)
        return None

    def noop(*a, **k):
        return None
    if name == '__init__':
        if isinstance(obj, SObj) and issubclass(obj.cls, BaseException):
            return _M(exc_init, '__init__')
        return _M(noop, '__init__')
    if name == '__setattr__':
        def sa(n, v):
            obj.attrs[n] = v
        return _M(sa, '__setattr__')
    if name in ('__str__', '__repr__'):
        from .engine import cur

        def s():
            if isinstance(obj, SObj) and 'args' in obj.attrs and len(obj.attrs['args']) == 1 and isinstance(obj.attrs['args'][0], (str, SStr)):
                return obj.attrs['args'][0]
            return opaque_str(cur())
        return _M(s, name)
    if name == '__new__':
        def new(cls, *a, **k):
            return SObj(cls, {})
        return _M(new, '__new__')
    if name == '__eq__':
        return _M(lambda o: obj is o, '__eq__')
    if name == '__ne__':
        return _M(lambda o: obj is not o, '__ne__')
    if name == '__hash__':
        return _M(lambda: id(obj), '__hash__')
    raise Unsupported('builtin method %s on interpreted object' % name)


import uuid as _uuid


@register(_uuid.UUID)
def _m_uuid(ctx, *a, **k):
    """E-UUID: UUID(bytes=b) for a 16-byte b is a value whose .bytes is b (ValueError otherwise)."""
    from .interp import SObj, deep_concrete, PyExc, py_raise
    if deep_concrete(a) and deep_concrete(k):
        try:
            return _uuid.UUID(*a, **k)
        except Exception as e:
            raise PyExc(e)
    if not a and set(k) in ({'fields'}, {'fields', 'version'}):
        # E-UUID (uuid.UUID.__init__ of CPython): six fields, each range-checked; with a version the variant bits become 10 and the
        # version nibble is set.  Mathematical integers: the fields occupy disjoint bit ranges, so `|` is `+`.
        f = k['fields']
        version = k.get('version')
        if not isinstance(f, (tuple, list)) or len(f) != 6 or (version is not None and not isinstance(version, int)):
            raise Unsupported('uuid.UUID(fields=...) shape')
        limits = [1 << 32, 1 << 16, 1 << 16, 1 << 8, 1 << 8, 1 << 48]
        names = ['time_low', 'time_mid', 'time_hi_version', 'clock_seq_hi_variant', 'clock_seq_low', 'node']
        ts = [as_int_term(x) for x in f]
        for t, lim, nm in zip(ts, limits, names):
            if not ctx.branch(z3.And(t >= 0, t < lim)):
                py_raise(ValueError('field %s out of range' % nm))
        tl, tm, thv, csh, csl, node = ts
        if version is not None:
            csh = (csh % 64) + 128
            thv = (thv % 4096) + version * 4096
        val = tl * (1 << 96) + tm * (1 << 80) + thv * (1 << 64) + csh * (1 << 56) + csl * (1 << 48) + node
        attrs = {'int': SInt(val), 'time_low': SInt(tl), 'time_mid': SInt(tm), 'time_hi_version': SInt(thv), 'clock_seq_hi_variant': SInt(csh),
                 'clock_seq_low': SInt(csl), 'node': SInt(node), 'clock_seq': SInt((csh % 64) * 256 + csl),
                 'time': SInt((thv % 4096) * (1 << 48) + tm * (1 << 32) + tl), 'version': version,
                 'bytes': SBytes(sym.int_to_bytes_be(val, 16, False))}
        return SObj(_uuid.UUID, attrs)
    if a or set(k) != {'bytes'}:
        raise Unsupported('uuid.UUID with symbolic arguments other than bytes= / fields=')
    b = lift(k['bytes'])
    if not ctx.branch(z3.Length(b.t) == 16):
        py_raise(ValueError('bytes is not a 16-char string'))
    return SObj(_uuid.UUID, {'bytes': b})


import functools as _functools


class PartialModel(object):
    """functools.partial over interpreter callables."""

    def __init__(self, func, args, keywords):
        self.func = func
        self.args = tuple(args)
        self.keywords = dict(keywords)

    def __repr__(self):
        return '<partial %r>' % (self.func,)


@register(_functools.partial)
def _m_partial(ctx, func, *args, **kw):
    return PartialModel(func, args, kw)


import binascii as _binascii


@register(_binascii.hexlify)
def _m_hexlify(ctx, data, *a):
    """E-HEX: the hexadecimal text of the bytes (opaque here: only ever used in messages)."""
    from .interp import deep_concrete
    if deep_concrete(data) and deep_concrete(a):
        return _binascii.hexlify(data, *a)
    return ctx.fresh_bytes('hexlified', register=False)


import socket as _socket

_NTOP = {}


def inet_ntop_model(ctx, family, addr):
    """E-INET: inet_ntop(family, b) is the textual form of the address bytes - an opaque function of (family, bytes), injective per family;
    it raises ValueError unless b has the family's length (4 / 16)."""
    from .interp import deep_concrete, PyExc, py_raise
    if deep_concrete(family) and deep_concrete(addr):
        try:
            return _socket.inet_ntop(family, bytes(addr))
        except Exception as e:
            raise PyExc(e)
    fam = sym.concrete_int(family) if not isinstance(family, int) else int(family)
    if fam not in (_socket.AF_INET, _socket.AF_INET6):
        raise Unsupported('inet_ntop with a symbolic address family')
    size = 4 if fam == _socket.AF_INET else 16
    b = lift(addr)
    if not ctx.branch(z3.Length(b.t) == size):
        py_raise(ValueError('invalid length of packed IP address string'))
    if fam not in _NTOP:
        _NTOP[fam] = (z3.Function('inet_ntop_%d' % size, sym.ByteSeq, z3.StringSort()), z3.Function('inet_pton_%d' % size, z3.StringSort(), sym.ByteSeq))
    ntop, pton = _NTOP[fam]
    s = ntop(b.t)
    ctx.assume(pton(s) == b.t, silent=True)
    return SStr(s)


@register(_socket.inet_ntop)
def _m_inet_ntop(ctx, family, addr):
    return inet_ntop_model(ctx, family, addr)
