"""Installs the free-list arena allocator of native/arena_cache.c (see there for why).  Best effort: when no C compiler is available or
anything fails the interpreter keeps its default allocator - results are identical either way, only slower under load."""
import ctypes
import os
import subprocess
import sys

_HERE = os.path.dirname(os.path.abspath(__file__))
_installed = None


class _Alloc(ctypes.Structure):
    _fields_ = [('ctx', ctypes.c_void_p), ('alloc', ctypes.c_void_p), ('free', ctypes.c_void_p)]


def _build():
    src = os.path.join(_HERE, 'native', 'arena_cache.c')
    base = os.environ.get('VERIF_SCRATCH', '/dev/shm')
    if not (os.path.isdir(base) and os.access(base, os.W_OK)):
        import tempfile
        base = tempfile.gettempdir()
    out_dir = os.environ.get('PYVC_BUILD_DIR') or os.path.join(base, 'pyvc-build-%d' % os.getuid())
    os.makedirs(out_dir, exist_ok=True)
    so = os.path.join(out_dir, 'arena_cache-%d.%d.so' % sys.version_info[:2])
    if os.path.exists(so) and os.path.getmtime(so) >= os.path.getmtime(src):
        return so
    tmp = '%s.%d.tmp' % (so, os.getpid())
    for cc in ('gcc', 'cc', 'clang'):
        try:
            r = subprocess.run([cc, '-O2', '-shared', '-fPIC', '-o', tmp, src], capture_output=True, timeout=60)
        except (OSError, subprocess.TimeoutExpired):
            continue
        if r.returncode == 0:
            os.replace(tmp, so)
            return so
    return None


def install():
    global _installed
    if _installed is not None or os.environ.get('PYVC_NO_ARENA_CACHE'):
        return bool(_installed)
    _installed = False
    try:
        so = _build()
        if not so:
            return False
        lib = ctypes.CDLL(so)
        a = _Alloc(None, ctypes.cast(lib.pyvc_arena_alloc, ctypes.c_void_p), ctypes.cast(lib.pyvc_arena_free, ctypes.c_void_p))
        ctypes.pythonapi.PyObject_SetArenaAllocator.argtypes = [ctypes.POINTER(_Alloc)]
        ctypes.pythonapi.PyObject_SetArenaAllocator.restype = None
        ctypes.pythonapi.PyObject_SetArenaAllocator(ctypes.byref(a))
        _installed = (lib, a)      # keep both alive for the life of the process
        return True
    except Exception:
        return False
