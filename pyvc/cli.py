"""check <Cxx> [--tier quick|thorough] [--replay file] [--only harness]

Exit codes: 0 held / 1 violation / 2 undecided / 3 checker error.
"""
import argparse
import glob
import importlib
import json
import multiprocessing
import os
import subprocess
import sys
import time
import traceback

VERIF = os.path.dirname(os.path.dirname(os.path.abspath(__file__)))
OUT = os.environ.get('VERIF_OUT', VERIF)
REPO = os.environ.get('VERIF_REPO', '/repo')


def load_contracts(prop):
    mods = sorted(glob.glob(os.path.join(VERIF, 'contracts', prop.lower() + '_*.py')))
    if not mods:
        raise SystemExit('CHECKER-ERROR no contract module for %s' % prop)
    out = []
    for m in mods:
        name = 'contracts.' + os.path.basename(m)[:-3]
        out.append(importlib.import_module(name))
    return out


def _run_one(args):
    prop, idx = args
    from pyvc import engine
    try:
        load_contracts(prop)
        h = engine.HARNESSES[prop][idx]
        return engine.run_harness(h)
    except BaseException:
        return {'harness': '#%d' % idx, 'prop': prop, 'fatal': traceback.format_exc(), 'obligations': {},
                'covers': {}, 'undecided': [], 'errors': [traceback.format_exc()], 'paths': 0, 'wall': 0,
                'functions': {}, 'assumptions': [], 'notes': [], 'kind': 'proof', 'aborted_paths': 0, 'doc': ''}


HARD_LIMIT_S = {'quick': 420, 'thorough': 2400}


def _child(conn, prop, idx):
    try:
        conn.send(_run_one((prop, idx)))
    finally:
        conn.close()


def _run_watchdog(prop, idxs, hs, jobs, limit):
    """One process per harness, at most `jobs` at a time, each killed after `limit` seconds (z3 does not always honour its own
    timeout): a killed harness is reported UNDECIDED, never as a violation."""
    ctxm = multiprocessing.get_context('fork')
    pending = list(idxs)
    running = {}
    results = {}
    while pending or running:
        while pending and len(running) < jobs:
            i = pending.pop(0)
            pc, cc = ctxm.Pipe(duplex=False)
            p = ctxm.Process(target=_child, args=(cc, prop, i))
            p.start()
            cc.close()
            running[i] = (p, pc, time.time())
        for i, (p, pc, t0) in list(running.items()):
            if pc.poll(0.02):
                try:
                    results[i] = pc.recv()
                except EOFError:
                    results[i] = None
                p.join()
                del running[i]
            elif not p.is_alive():
                # the child may have delivered its result and exited between the poll above and this test: look once more before calling it dead
                p.join()
                if pc.poll(0.5):
                    try:
                        results[i] = pc.recv()
                    except EOFError:
                        results[i] = None
                else:
                    results[i] = None
                del running[i]
            elif time.time() - t0 > limit:
                p.kill()
                p.join()
                results[i] = 'timeout'
                del running[i]
    out = []
    for i in idxs:
        r = results.get(i)
        if r is None or r == 'timeout':
            why = ('harness killed after the hard limit of %d s (solver ignored its timeout)' % limit) if r == 'timeout' else 'harness process died without a result'
            r = {'harness': hs[i].name, 'prop': prop, 'obligations': {}, 'covers': {}, 'undecided': [why], 'errors': [] if results.get(i) == 'timeout' else [why],
                 'paths': 0, 'wall': limit if results.get(i) == 'timeout' else 0, 'functions': {}, 'assumptions': [], 'notes': [], 'kind': 'proof', 'aborted_paths': 0, 'doc': ''}
        out.append(r)
    return out


def load_known():
    p = os.path.join(VERIF, 'known_findings.json')
    if not os.path.exists(p):
        return {'known': [], 'fixed': []}
    return json.load(open(p))


def native_replay(prop, hname, oname, witness, spec):
    """Run the native replay function (under the test-suite interpreter, cwd = repo) on the counter-model."""
    if not spec:
        return None
    req = {'spec': spec, 'model': witness.get('model') or {}, 'obligation': '%s/%s/%s' % (prop, hname, oname)}
    env = dict(os.environ)
    env['PYTHONPATH'] = VERIF
    try:
        p = subprocess.run(['/venv/bin/python', os.path.join(VERIF, 'pyvc', 'replay_native.py')],
                           input=json.dumps(req), capture_output=True, text=True, cwd=REPO, env=env, timeout=300)
    except subprocess.TimeoutExpired:
        return {'reproduced': False, 'detail': 'native replay timed out'}
    try:
        return json.loads(p.stdout.strip().splitlines()[-1])
    except Exception:
        return {'reproduced': False, 'detail': 'native replay produced no result: %s %s' % (p.stdout[-500:], p.stderr[-1500:])}


def main(argv=None):
    ap = argparse.ArgumentParser()
    ap.add_argument('prop')
    ap.add_argument('--tier', default=os.environ.get('VERIF_TIER', 'quick'))
    ap.add_argument('--replay')
    ap.add_argument('--only')
    ap.add_argument('--jobs', type=int, default=int(os.environ.get('PYVC_JOBS', '16')))
    ap.add_argument('--verbose', '-v', action='store_true')
    a = ap.parse_args(argv)
    try:
        from pyvc import arena
        arena.install()      # performance only (pyvc/native/arena_cache.c); harness processes are forked from this one and inherit it
    except Exception:
        pass
    os.environ['VERIF_TIER'] = a.tier
    prop = a.prop.upper()
    seed = int(os.environ.get('VERIF_SEED', '0') or 0)
    t0 = time.time()
    sys.path.insert(0, VERIF)
    if REPO not in sys.path:
        sys.path.insert(0, REPO)

    if a.replay:
        return do_replay(prop, a.replay)

    from pyvc import engine
    mods = load_contracts(prop)
    hs = engine.HARNESSES.get(prop, [])
    if not hs and not any(getattr(m, 'BOUNDED', None) for m in mods):
        print('CHECKER-ERROR property=%s no harnesses registered' % prop)
        return 3
    idxs = [i for i, h in enumerate(hs) if not a.only or a.only in h.name]
    if a.jobs > 1:
        results = _run_watchdog(prop, idxs, hs, a.jobs, HARD_LIMIT_S[a.tier if a.tier in HARD_LIMIT_S else 'quick'])
    else:
        results = [_run_one((prop, i)) for i in idxs]

    # Budgets are wall-clock.  A harness that ended UNDECIDED (no violation, no checker error) while the other harnesses of this check - and
    # whatever else the machine was running - competed for the cores is attempted once more, now with the pool to itself; only a second
    # undecided outcome is reported.  The second attempt replaces the first entirely, a violation found by it is reported as any other.
    reattempted = []
    if a.jobs > 1:
        for k, r in enumerate(results):
            if r.get('errors') or any(o['sat'] > 0 and not o['expect_fail'] and not on.startswith('KF:') for on, o in r.get('obligations', {}).items()):
                continue
            if r.get('undecided') and all(str(u).startswith('unsupported') for u in r['undecided']):
                continue      # a construct outside the engine's subset: a second attempt ends the same way
            if r.get('undecided') or any(o['unknown'] > 0 and not o['expect_fail'] for o in r.get('obligations', {}).values()):
                reattempted.append(r['harness'])
                results[k] = _run_watchdog(prop, [idxs[k]], hs, 1, HARD_LIMIT_S[a.tier if a.tier in HARD_LIMIT_S else 'quick'])[0]

    # bounded stand-ins and probes registered by the contract modules
    bounded = []
    for m in mods:
        for fn in getattr(m, 'BOUNDED', []):
            tb = time.time()
            try:
                r = fn(a.tier, seed)
            except Exception:
                r = {'name': fn.__name__, 'error': traceback.format_exc()}
            r.setdefault('name', fn.__name__)
            r['wall'] = time.time() - tb
            bounded.append(r)

    # lemmas cited by the contracts and proved in Lean (lemmas/Lemmas.lean): elaborated on every run
    lean_names = sorted({n for m in mods for n in getattr(m, 'LEAN_LEMMAS', [])})
    lean_result = None
    if lean_names and not a.only:
        from pyvc import lean_lemmas
        lean_result = lean_lemmas.check(lean_names, thorough=(a.tier == 'thorough'))

    known = load_known()
    known_ids = {k['id']: k for k in known.get('known', []) if k.get('property') == prop}

    n_obl = n_dis = 0
    violations = []
    known_hits = []
    undecided = []
    errors = []
    backends = {}
    solver_s = 0.0
    samples = []
    functions = {}
    assumptions = set()
    mustfail_ok = 0
    mustfail_total = 0
    for r in results:
        hname = r['harness']
        for e in r.get('errors', []):
            errors.append('%s: %s' % (hname, e))
        for u in r.get('undecided', []):
            undecided.append('%s: %s' % (hname, u))
        for cname, ok in r.get('covers', {}).items():
            if not ok:
                errors.append('%s: cover %s unreachable (vacuous contract)' % (hname, cname))
        if not r.get('obligations') and not r.get('errors') and not r.get('undecided'):
            errors.append('%s: zero obligations generated' % hname)
        functions.update(r.get('functions', {}))
        assumptions.update(r.get('assumptions', []))
        for oname, o in r.get('obligations', {}).items():
            solver_s += o['time']
            for b, c in o['backends'].items():
                backends[b] = backends.get(b, 0) + c
            oid = '%s/%s/%s' % (prop, hname, oname)
            if o['expect_fail']:
                mustfail_total += 1
                if o['sat'] > 0:
                    mustfail_ok += 1
                else:
                    errors.append('%s: must-fail obligation did not fail (engine unsound or vacuous)' % oid)
                continue
            kf = None
            if oname.startswith('KF:'):
                # known-finding witness class: expected to be sat while the finding stands
                kfid = oname.split(':')[1].split('/')[0]
                if o['sat'] > 0 and kfid in known_ids:
                    known_hits.append((kfid, oid, o['witness']))
                    continue
                if o['sat'] == 0 and o['unknown'] == 0:
                    continue      # the finding no longer manifests (fixed): nothing to report
                if kfid in known_ids:
                    continue
            n_obl += 1
            if o['sat'] > 0:
                violations.append((hname, oname, oid, o['witness'], r))
            elif o['unknown'] > 0:
                undecided.append('%s: %s' % (oid, (o['witness'] or {}).get('reason')))
            else:
                n_dis += 1
                if len(samples) < 6:
                    samples.append({'obligation': oid, 'path_instances': o['instances'], 'result': 'unsat',
                                    'backends': o['backends'], 'contract': r.get('doc', '')[:300]})
    for b in bounded:
        if b.get('error'):
            errors.append('bounded %s: %s' % (b['name'], b['error']))
        if b.get('violations'):
            violations.append((b['name'], 'bounded', '%s/%s/bounded' % (prop, b['name']),
                               {'status': 'concrete', 'model': {'failing_inputs': b['violations']}, 'native': True}, None))

    if lean_result is not None and not lean_result.get('ok'):
        errors.append('lemma file not accepted by lean: %s' % lean_result.get('error'))
    elif lean_result is not None:
        backends['lean'] = len(lean_names)
    wall = time.time() - t0
    rc = 0
    lines = []
    replay_dir = os.path.join(OUT, 'replays', prop)
    if not a.only:
        import shutil
        shutil.rmtree(replay_dir, ignore_errors=True)      # replay files of an earlier run do not describe this one
    hmeta = {h.name: h for h in hs}
    real_violations = []
    for hname, oname, oid, w, r in violations:
        os.makedirs(replay_dir, exist_ok=True)
        path = os.path.join(replay_dir, (hname + '__' + oname).replace('/', '_').replace(':', '_') + '.json')
        rep = None
        if w.get('native'):
            rep = {'reproduced': True, 'detail': 'concrete failing input found by bounded stand-in on the real code'}
        else:
            spec = getattr(hmeta.get(hname), 'native', None) if hmeta.get(hname) else None
            rep = native_replay(prop, hname, oname, w, spec)
        doc = {'property': prop, 'obligation': oid, 'harness': hname, 'status': w.get('status'),
               'model': w.get('model'), 'decisions': w.get('decisions'), 'solver_model_text': w.get('model_text'),
               'smt2': w.get('smt2'), 'native_replay': rep, 'note': w.get('note'),
               'functions': (r or {}).get('functions')}
        with open(path, 'w') as f:
            json.dump(doc, f, indent=1, default=str)
        tail = '' if (rep and rep.get('reproduced')) else ' no-failing-input-found'
        lines.append('VIOLATION property=%s replay=%s obligation=%s%s' % (prop, path, oid, tail))
        real_violations.append(oid)
    by_kf = {}
    for kfid, oid, w in known_hits:
        by_kf.setdefault(kfid, []).append(oid)
    for kfid, oids in by_kf.items():
        k = known_ids[kfid]
        lines.append('KNOWN-FINDING: property=%s %s [%s] %s' % (prop, kfid, '; '.join(oids), k.get('what', '')))

    if errors:
        rc = 3
    if real_violations:
        rc = 1 if rc != 3 else 3
    elif undecided and rc == 0:
        rc = 2

    level = getattr(mods[0], 'LEVEL', 'proof')
    ev = {
        'property_id': prop, 'tier': a.tier, 'seed': seed, 'level': level, 'wall_s': round(wall, 2),
        'violations': len(real_violations),
        'coverage': {
            'obligations': n_obl, 'discharged': n_dis,
            'checker_cmd': './check %s --tier %s' % (prop, a.tier),
            'trusted_base': sorted(assumptions) + list(getattr(mods[0], 'TRUSTED', [])),
            'explanation': getattr(mods[0], 'EXPLANATION', ''),
            'backends': backends, 'solver_s': round(solver_s, 3),
            'paths_explored': sum(r.get('paths', 0) for r in results),
            'harnesses': [{'name': r['harness'], 'kind': r.get('kind'), 'paths': r.get('paths'),
                           'obligations': len([o for o in r.get('obligations', {}).values() if not o['expect_fail']]),
                           'wall_s': round(r.get('wall', 0), 2), 'contract': r.get('doc', '')[:400]} for r in results],
            'functions_under_contract': functions,
            'must_fail_selfchecks': {'total': mustfail_total, 'failed_as_required': mustfail_ok},
            'covers': {r['harness']: r.get('covers', {}) for r in results if r.get('covers')},
            'bounded': [{k: v for k, v in b.items() if k != 'violations'} for b in bounded],
            'samples': samples or [{'note': 'no discharged obligation to sample'}],
            'undecided': undecided, 'checker_errors': errors[:20], 'harnesses_attempted_twice': reattempted,
            'known_findings_reported': [k for k, _, _ in known_hits],
            'lemmas': lean_result,
        },
        'assumptions': sorted(assumptions) + list(getattr(mods[0], 'TRUSTED', [])),
    }
    # exploration-style counts for levels that need them (measured, from bounded stand-ins)
    evals = sum(b.get('evaluations', 0) for b in bounded)
    distinct = sum(b.get('distinct_nontrivial', 0) for b in bounded)
    if bounded:
        ev['coverage']['evaluations'] = evals
        ev['coverage']['distinct_nontrivial'] = distinct
        ev['coverage']['rule'] = '; '.join(b.get('rule', b['name']) for b in bounded)
        for b in bounded:
            for s in b.get('samples', [])[:2]:
                ev['coverage']['samples'].append({'bounded': b['name'], 'case': s})
    os.makedirs(os.path.join(OUT, 'evidence'), exist_ok=True)
    with open(os.path.join(OUT, 'evidence', prop + '.json'), 'w') as f:
        json.dump(ev, f, indent=1, default=str)

    for ln in lines:
        print(ln)
    if rc == 0:
        print('HELD property=%s obligations=%d discharged=%d bounded=%d must_fail=%d/%d wall=%.1fs' %
              (prop, n_obl, n_dis, len(bounded), mustfail_ok, mustfail_total, wall))
    elif rc == 2:
        for u in undecided[:10]:
            print('UNDECIDED property=%s %s' % (prop, u))
    elif rc == 3:
        for e in errors[:10]:
            print('CHECKER-ERROR property=%s %s' % (prop, e))
    if a.verbose:
        for r in results:
            print('  harness %-40s paths=%-5s obligations=%-3d wall=%.1fs %s' % (
                r['harness'], r.get('paths'), len(r.get('obligations', {})), r.get('wall', 0),
                'UNDECIDED ' + '; '.join(r['undecided'][:2]) if r.get('undecided') else ''))
            for on, o in r.get('obligations', {}).items():
                print('      %-60s inst=%-4d unsat=%-4d sat=%-3d unk=%-3d %.2fs%s' % (
                    on, o['instances'], o['unsat'], o['sat'], o['unknown'], o['time'], ' (must-fail)' if o['expect_fail'] else ''))
    return rc


def do_replay(prop, path):
    doc = json.load(open(path))
    print(json.dumps({k: doc.get(k) for k in ('property', 'obligation', 'model', 'native_replay')}, indent=1))
    from pyvc import engine
    load_contracts(prop)
    h = [x for x in engine.HARNESSES.get(prop, []) if x.name == doc.get('harness')]
    spec = getattr(h[0], 'native', None) if h else None
    if spec:
        rep = native_replay(prop, doc['harness'], doc['obligation'].split('/')[-1], {'model': doc.get('model')}, spec)
        print('native replay now:', json.dumps(rep))
        return 1 if rep and rep.get('reproduced') else 0
    return 0


if __name__ == '__main__':
    sys.exit(main())
