"""Symbolic values for pyvc: Python-semantics wrappers around z3 terms.

Every operation here is either an exact encoding of CPython's semantics for the
value kinds involved, or raises Unsupported (-> the obligation is *undecided*,
never a pass and never a violation).

Kinds
  SBool  z3 Bool           Python bool
  SInt   z3 Int            Python int (unbounded: mathematical integers, exact)
  SReal  z3 Real           float treated as a mathematical real (A-REAL, listed)
  SBytes z3 Seq(Int)       bytes; every element e satisfies 0 <= e < 256
                           (range facts are added to the path condition lazily,
                           as ground instances at each element access)
  SStr   z3 String         str
  SSeq   z3 Seq(sort)      tuple/list of a single z3 sort (immutable view)
  SU     uninterpreted     opaque value (hosts, callbacks, ...): == only

Truthiness / branching goes through the active exploration context
(`pyvc.engine.cur()`), which forks the path.
"""
import z3

IntSort = z3.IntSort()
BoolSort = z3.BoolSort()
ByteSeq = z3.SeqSort(IntSort)


class Unsupported(Exception):
    """Construct or operation outside the encodable subset."""


def _ctx():
    from . import engine
    return engine.cur()


class Sym(object):
    __slots__ = ('t',)
    __hash__ = object.__hash__

    def __init__(self, t):
        self.t = t

    def __repr__(self):
        s = self.t.sexpr() if hasattr(self.t, 'sexpr') else repr(self.t)
        if len(s) > 120:
            s = s[:117] + '...'
        return '%s<%s>' % (type(self).__name__, s)


def is_sym(v):
    return isinstance(v, Sym)


# ---------------------------------------------------------------------------
# lifting

def lift(v):
    """Concrete Python scalar -> Sym (or the value itself if already Sym)."""
    if isinstance(v, Sym):
        return v
    if isinstance(v, bool):
        return SBool(z3.BoolVal(v))
    if isinstance(v, int):
        return SInt(z3.IntVal(v))
    if isinstance(v, (bytes, bytearray)):
        return SBytes(bytes_const(bytes(v)))
    if isinstance(v, str):
        return SStr(z3.StringVal(v))
    if isinstance(v, float):
        if v == int(v) and abs(v) < 2 ** 62:
            return SReal(z3.RealVal(int(v)))
        from fractions import Fraction
        f = Fraction(v)
        return SReal(z3.RealVal(f.numerator) / z3.RealVal(f.denominator))
    raise Unsupported('cannot lift %r' % (type(v),))


def bytes_const(b):
    if len(b) == 0:
        return z3.Empty(ByteSeq)
    units = [z3.Unit(z3.IntVal(x)) for x in b]
    if len(units) == 1:
        return units[0]
    return z3.Concat(*units)


def as_int_term(v):
    """z3 Int term of a Python-int-like value (bool counts as int)."""
    if isinstance(v, SInt):
        return v.t
    if isinstance(v, SBool):
        return z3.If(v.t, z3.IntVal(1), z3.IntVal(0))
    if isinstance(v, bool):
        return z3.IntVal(1 if v else 0)
    if isinstance(v, int):
        return z3.IntVal(v)
    if type(v).__name__ == 'SLow' and v.ub is not None:
        t = v.t
        k = max(1, v.ub.bit_length())
        if k < t.size():
            t = z3.simplify(z3.Extract(k - 1, 0, t))       # value < 2^k: the low k bits are the value
        return z3.BV2Int(t, is_signed=False)
    raise Unsupported('not an int: %r' % (v,))


def is_intlike(v):
    return (isinstance(v, (SInt, SBool, int)) and not isinstance(v, float)) or (type(v).__name__ == 'SLow' and v.ub is not None)


def as_bool_term(v):
    if isinstance(v, SBool):
        return v.t
    if isinstance(v, bool):
        return z3.BoolVal(v)
    raise Unsupported('not a bool: %r' % (v,))


def concrete_int(v):
    """If v is a concrete int (possibly a simplified SInt literal) return it, else None."""
    if isinstance(v, bool):
        return int(v)
    if isinstance(v, int):
        return v
    if isinstance(v, SInt):
        s = z3.simplify(v.t)
        if z3.is_int_value(s):
            return s.as_long()
    return None


# ---------------------------------------------------------------------------
# Bool

class SBool(Sym):
    __slots__ = ()

    def __bool__(self):
        return _ctx().branch(self.t)

    def __invert__(self):  # used by contracts as logical not: ~b
        return SBool(z3.Not(self.t))

    def __and__(self, o):
        if isinstance(o, (SBool, bool)):
            return SBool(z3.And(self.t, as_bool_term(o)))
        return SInt(as_int_term(self)) & o

    __rand__ = __and__

    def __or__(self, o):
        if isinstance(o, (SBool, bool)):
            return SBool(z3.Or(self.t, as_bool_term(o)))
        return SInt(as_int_term(self)) | o

    __ror__ = __or__

    def __eq__(self, o):
        if isinstance(o, (SBool, bool)):
            return SBool(self.t == as_bool_term(o))
        if is_intlike(o):
            return SBool(as_int_term(self) == as_int_term(o))
        return False

    def __ne__(self, o):
        r = self.__eq__(o)
        return (not r) if isinstance(r, bool) else SBool(z3.Not(r.t))

    __hash__ = object.__hash__

    # arithmetic: bool is an int
    def _i(self):
        return SInt(as_int_term(self))

    def __add__(self, o): return self._i() + o
    def __radd__(self, o): return o + self._i()
    def __sub__(self, o): return self._i() - o
    def __rsub__(self, o): return o - self._i()
    def __mul__(self, o): return self._i() * o
    def __rmul__(self, o): return o * self._i()
    def __lt__(self, o): return self._i() < o
    def __le__(self, o): return self._i() <= o
    def __gt__(self, o): return self._i() > o
    def __ge__(self, o): return self._i() >= o


def implies(a, b):
    if isinstance(a, bool) and isinstance(b, bool):
        return (not a) or b
    return SBool(z3.Implies(as_bool_term(a), as_bool_term(b)))


def and_(*xs):
    if all(isinstance(x, bool) for x in xs):
        return all(xs)
    return SBool(z3.And(*[as_bool_term(x) for x in xs]))


def or_(*xs):
    if all(isinstance(x, bool) for x in xs):
        return any(xs)
    return SBool(z3.Or(*[as_bool_term(x) for x in xs]))


def not_(x):
    if isinstance(x, bool):
        return not x
    return SBool(z3.Not(as_bool_term(x)))


def ite(c, a, b):
    """Value-level if-then-else without forking (both sides same kind)."""
    if isinstance(c, bool):
        return a if c else b
    ct = as_bool_term(c)
    if a is None or b is None:
        raise Unsupported('ite with None')
    la, lb = lift(a), lift(b)
    if type(la) is not type(lb):
        if is_intlike(la) and is_intlike(lb):
            return SInt(z3.If(ct, as_int_term(la), as_int_term(lb)))
        raise Unsupported('ite of different kinds')
    return type(la)(z3.If(ct, la.t, lb.t))


# ---------------------------------------------------------------------------
# Int

def _floordiv(a, b):
    # Python floor division, b != 0 established by caller
    return z3.If(b > 0, a / b, (-a) / (-b))


def _pow2(k):
    return z3.IntVal(1 << k)


def _div_const(t, c):
    """t div c for a positive constant c in a canonical chained form: divisions by powers of 256 become a chain of
    divisions by 256 (digit extraction and positional reconstruction then stay linear, step by step, for the solver)."""
    k = 0
    while c % 256 == 0 and c > 1:
        c //= 256
        k += 1
    for _ in range(k):
        t = t / z3.IntVal(256)
    if c > 1:
        t = t / z3.IntVal(c)
    return t


class SInt(Sym):
    __slots__ = ()

    def __bool__(self):
        return _ctx().branch(self.t != 0)

    def __index__(self):
        c = concrete_int(self)
        if c is None:
            raise Unsupported('symbolic int used as index')
        return c

    def _bin(self, o, f):
        if isinstance(o, (SReal, float)):
            return f(to_real(self), to_real(o), True)
        if not is_intlike(o):
            return NotImplemented
        return f(self.t, as_int_term(o), False)

    def __add__(self, o):
        if isinstance(o, (SReal, float)):
            return SReal(to_real(self) + to_real(o))
        if not is_intlike(o):
            return NotImplemented
        return SInt(self.t + as_int_term(o))

    __radd__ = __add__

    def __sub__(self, o):
        if isinstance(o, (SReal, float)):
            return SReal(to_real(self) - to_real(o))
        if not is_intlike(o):
            return NotImplemented
        return SInt(self.t - as_int_term(o))

    def __rsub__(self, o):
        if isinstance(o, (SReal, float)):
            return SReal(to_real(o) - to_real(self))
        if not is_intlike(o):
            return NotImplemented
        return SInt(as_int_term(o) - self.t)

    def __mul__(self, o):
        if isinstance(o, (SReal, float)):
            return SReal(to_real(self) * to_real(o))
        if not is_intlike(o):
            return NotImplemented
        return SInt(self.t * as_int_term(o))

    __rmul__ = __mul__

    def __neg__(self):
        return SInt(-self.t)

    def __pos__(self):
        return self

    def __abs__(self):
        return SInt(z3.If(self.t >= 0, self.t, -self.t))

    def __invert__(self):
        return SInt(-self.t - 1)

    def _divcheck(self, bt):
        ctx = _ctx()
        if ctx.branch(bt == 0):
            from .interp import py_raise
            py_raise(ZeroDivisionError('integer division or modulo by zero'))

    def __floordiv__(self, o):
        if not is_intlike(o):
            return NotImplemented
        bt = as_int_term(o)
        self._divcheck(bt)
        c = concrete_int(o)
        if c is not None and c > 0:
            return SInt(_div_const(self.t, c))
        return SInt(_floordiv(self.t, bt))

    def __rfloordiv__(self, o):
        return SInt(as_int_term(o)).__floordiv__(self)

    def __mod__(self, o):
        if not is_intlike(o):
            return NotImplemented
        bt = as_int_term(o)
        self._divcheck(bt)
        c = concrete_int(o)
        if c is not None and c > 0:
            return SInt(self.t % bt)
        return SInt(self.t - bt * _floordiv(self.t, bt))

    def __rmod__(self, o):
        if isinstance(o, (str, bytes)):
            return NotImplemented
        return SInt(as_int_term(o)).__mod__(self)

    def __divmod__(self, o):
        return (self // o, self % o)

    def __truediv__(self, o):
        if isinstance(o, (SReal, float)) or is_intlike(o):
            ot = to_real(o)
            if _ctx().branch(ot == 0):
                from .interp import py_raise
                py_raise(ZeroDivisionError('division by zero'))
            return SReal(to_real(self) / ot)
        return NotImplemented

    def __rtruediv__(self, o):
        return SReal(to_real(o)).__truediv__(self)

    def __pow__(self, o):
        c = concrete_int(o)
        if c is None or c < 0 or c > 64:
            raise Unsupported('int ** symbolic/large')
        r = z3.IntVal(1)
        for _ in range(c):
            r = r * self.t
        return SInt(r)

    def __rpow__(self, o):
        raise Unsupported('const ** symbolic int')

    def __lshift__(self, o):
        c = concrete_int(o)
        if c is None:
            c = small_int_case(_ctx(), o)
        bv = _bv_of_bv2int(self.t)
        if bv is not None and c >= 0 and bv.size() + c < EXACT_W:
            return SLow(z3.ZeroExt(EXACT_W - bv.size(), bv), (1 << bv.size()) - 1) << c
        if c < 0:
            from .interp import py_raise
            py_raise(ValueError('negative shift count'))
        return SInt(self.t * _pow2(c))

    def __rlshift__(self, o):
        # o << self  (self is the symbolic shift amount)
        from .libmodels import pow2_sym
        ctx = _ctx()
        k = small_int_case(ctx, self, soft=True)
        if k is not None:
            return lift(o) * (1 << k) if is_sym(o) else o << k
        return pow2_sym(ctx, self) * o

    def __rshift__(self, o):
        c = concrete_int(o)
        if c is None:
            c = small_int_case(_ctx(), o)
        if c < 0:
            from .interp import py_raise
            py_raise(ValueError('negative shift count'))
        return SInt(_div_const(self.t, 1 << c))   # z3 div by positive = floor = Python >>

    def __rrshift__(self, o):
        k = small_int_case(_ctx(), self)
        return lift(o) >> k if is_sym(o) else o >> k

    def __and__(self, o):
        c = concrete_int(o)
        bv = _bv_of_bv2int(self.t)
        if bv is not None and c is not None and c >= 0:
            k = c.bit_length()
            if (c & (c + 1)) == 0 and bv.size() <= k:
                return self                                # mask keeps every bit
            return SLow(z3.ZeroExt(EXACT_W - bv.size(), bv), (1 << bv.size()) - 1) & c
        if c is not None:
            if c == 0:
                return SInt(z3.IntVal(0))
            if c > 0 and (c & (c + 1)) == 0:           # 2^k - 1 : x mod 2^k, any sign
                if _mentions_bv2int(self.t):
                    r = _mod_pow2(self.t, c.bit_length())
                    if _bv_of_bv2int(r) is not None:
                        return SInt(r)
                    return SInt(z3.simplify(r))
                return SInt(self.t % z3.IntVal(c + 1))      # pure Int terms keep the canonical (t mod 2^k) shape
            if c > 0:
                # general non-negative constant mask: sum of selected bits
                r = z3.IntVal(0)
                k = 0
                cc = c
                while cc:
                    if cc & 1:
                        # contiguous run
                        j = k
                        while (c >> j) & 1:
                            j += 1
                        run = j - k
                        r = r + ((self.t / _pow2(k)) % _pow2(run)) * _pow2(k)
                        cc >>= run
                        k = j
                    else:
                        cc >>= 1
                        k += 1
                return SInt(r)
            if c == -1:
                return self
        if isinstance(o, SLow):
            return o & self
        if is_intlike(o):
            ctx = _ctx()
            return exact_bv(ctx, self) & exact_bv(ctx, o)
        return NotImplemented

    __rand__ = __and__

    def __or__(self, o):
        if not is_intlike(o):
            return NotImplemented
        return bit_or(_ctx(), self, o)

    __ror__ = __or__

    def __xor__(self, o):
        if not is_intlike(o):
            return NotImplemented
        return bit_xor(_ctx(), self, o)

    __rxor__ = __xor__

    def _cmp(self, o, f):
        if isinstance(o, (SReal, float)):
            return SBool(f(to_real(self), to_real(o)))
        if not is_intlike(o):
            return NotImplemented
        return SBool(f(self.t, as_int_term(o)))

    def __lt__(self, o): return self._cmp(o, lambda a, b: a < b)
    def __le__(self, o): return self._cmp(o, lambda a, b: a <= b)
    def __gt__(self, o): return self._cmp(o, lambda a, b: a > b)
    def __ge__(self, o): return self._cmp(o, lambda a, b: a >= b)

    def __eq__(self, o):
        if isinstance(o, (SReal, float)):
            return SBool(to_real(self) == to_real(o))
        if not is_intlike(o):
            return False
        return SBool(self.t == as_int_term(o))

    def __ne__(self, o):
        r = self.__eq__(o)
        return (not r) if isinstance(r, bool) else SBool(z3.Not(r.t))

    __hash__ = object.__hash__


def proves(ctx, cond):
    """True iff the current path condition entails cond (solver says pc and not cond is unsat)."""
    if isinstance(cond, SBool):
        cond = cond.t
    if isinstance(cond, bool):
        return cond
    c = z3.simplify(cond)
    if z3.is_true(c):
        return True
    if z3.is_false(c):
        return False
    if hasattr(ctx, '_budget'):
        ctx._budget()
    try:
        r = ctx.solver.check(z3.Not(c))
        if r == z3.unknown and getattr(ctx, 'solver', None) is not None:
            # the short wall-clock budget of the path solver ran out (a loaded machine): ask once more with five times the budget in a fresh solver,
            # so that a structural decision (a bound, a size) does not flip to `not proved` - and the harness to undecided - because of scheduling
            s2 = z3.Solver()
            s2.set('timeout', 10000)
            s2.add(*ctx.solver.assertions())
            r = s2.check(z3.Not(c))
        return r == z3.unsat
    except z3.Z3Exception:
        return False          # the solver gave up ('reached max unfolding' of the sequence procedure): not proved


def small_int_case(ctx, v, lo=0, hi=80, soft=False):
    """Concretise a symbolic int that is provably within [lo, hi] by forking over its values."""
    c = concrete_int(v)
    if c is not None:
        return c
    vt = as_int_term(v)
    if not proves(ctx, z3.And(vt >= lo, vt <= hi)):
        if soft:
            return None
        raise Unsupported('symbolic shift/size amount not provably within [%d, %d]' % (lo, hi))
    for k in range(lo, hi + 1):
        if ctx.branch(vt == k):
            return k
    raise Unsupported('small_int_case fell through')


def bit_or(ctx, a, b):
    """a | b on Python ints where the operands are provably bit-disjoint (then | is +), or trivial."""
    ca, cb = concrete_int(a), concrete_int(b)
    if ca is not None and cb is not None:
        return ca | cb
    if isinstance(a, SLow) or isinstance(b, SLow):
        return exact_bv(ctx, a) | exact_bv(ctx, b)
    if ca is not None:
        a, b, ca, cb = b, a, cb, ca
    at, bt = as_int_term(a), as_int_term(b)
    if cb == 0:
        return SInt(at)
    ks = [8]
    if cb is not None and cb > 0:
        low = (cb & -cb).bit_length() - 1       # lowest set bit of the mask
        ks = [low, cb.bit_length()]
    for k in ks:
        m = z3.IntVal(1 << k)
        if proves(ctx, z3.And(at >= 0, at < m, bt % m == 0)):
            return SInt(at + bt)
        if proves(ctx, z3.And(bt >= 0, bt < m, at % m == 0)):
            return SInt(at + bt)
    # bounded non-negative operands: do it on exact bit-vectors
    return exact_bv(ctx, a) | exact_bv(ctx, b)


def bit_xor(ctx, a, b):
    """a ^ b where one operand is provably 0 or -1 (x ^ 0 == x, x ^ -1 == ~x), or provably bit-disjoint."""
    ca, cb = concrete_int(a), concrete_int(b)
    if ca is not None and cb is not None:
        return ca ^ cb
    if isinstance(a, SLow) or isinstance(b, SLow):
        return exact_bv(ctx, a) ^ exact_bv(ctx, b)
    at, bt = as_int_term(a), as_int_term(b)
    for x, y in ((at, bt), (bt, at)):
        if proves(ctx, z3.Or(y == 0, y == -1)):
            return SInt(z3.If(y == 0, x, -x - 1))
    return exact_bv(ctx, a) ^ exact_bv(ctx, b)


def to_real(v):
    if isinstance(v, SReal):
        return v.t
    if isinstance(v, float):
        return lift(v).t
    return z3.ToReal(as_int_term(v))


class SReal(Sym):
    """A float treated as a mathematical real (assumption A-REAL)."""
    __slots__ = ()

    def __bool__(self):
        return _ctx().branch(self.t != 0)

    def _ok(self, o):
        return isinstance(o, (SReal, float)) or is_intlike(o)

    def __add__(self, o):
        return SReal(self.t + to_real(o)) if self._ok(o) else NotImplemented
    __radd__ = __add__

    def __sub__(self, o):
        return SReal(self.t - to_real(o)) if self._ok(o) else NotImplemented

    def __rsub__(self, o):
        return SReal(to_real(o) - self.t) if self._ok(o) else NotImplemented

    def __mul__(self, o):
        if not self._ok(o):
            return NotImplemented
        if isinstance(o, SInt):
            ctx = _ctx()
            if getattr(ctx, 'float_overflow_nondet', False):
                if ctx.branch(ctx.fresh_bool('int_too_large_for_float', register=False).t):
                    from .interp import py_raise
                    py_raise(OverflowError('int too large to convert to float'))
        return SReal(self.t * to_real(o))
    __rmul__ = __mul__

    def __neg__(self):
        return SReal(-self.t)

    def __truediv__(self, o):
        if not self._ok(o):
            return NotImplemented
        ot = to_real(o)
        if _ctx().branch(ot == 0):
            from .interp import py_raise
            py_raise(ZeroDivisionError('float division by zero'))
        return SReal(self.t / ot)

    def __rtruediv__(self, o):
        return SReal(to_real(o)).__truediv__(self)

    def _cmp(self, o, f):
        return SBool(f(self.t, to_real(o))) if self._ok(o) else NotImplemented

    def __lt__(self, o): return self._cmp(o, lambda a, b: a < b)
    def __le__(self, o): return self._cmp(o, lambda a, b: a <= b)
    def __gt__(self, o): return self._cmp(o, lambda a, b: a > b)
    def __ge__(self, o): return self._cmp(o, lambda a, b: a >= b)

    def __eq__(self, o):
        return SBool(self.t == to_real(o)) if self._ok(o) else False

    def __ne__(self, o):
        r = self.__eq__(o)
        return (not r) if isinstance(r, bool) else SBool(z3.Not(r.t))

    __hash__ = object.__hash__


def real_min(a, b):
    at, bt = to_real(a), to_real(b)
    return SReal(z3.If(at <= bt, at, bt))


def real_max(a, b):
    at, bt = to_real(a), to_real(b)
    return SReal(z3.If(at >= bt, at, bt))


def int_min(a, b):
    at, bt = as_int_term(a), as_int_term(b)
    return SInt(z3.If(at <= bt, at, bt))


def int_max(a, b):
    at, bt = as_int_term(a), as_int_term(b)
    return SInt(z3.If(at >= bt, at, bt))


# ---------------------------------------------------------------------------
# sequences

def _norm_index(seq_len_t, i):
    """Index term for possibly negative concrete index."""
    c = concrete_int(i)
    it = as_int_term(i)
    if c is not None:
        return (seq_len_t + c) if c < 0 else z3.IntVal(c)
    return z3.If(it < 0, seq_len_t + it, it)


def _clamp_slice(n, lo, hi):
    """Python slice clamping for step 1: returns (start, length) z3 Int terms."""
    def norm(x, default):
        if x is None:
            return default
        c = concrete_int(x)
        xt = as_int_term(x)
        if c is not None:
            if c >= 0:
                return z3.If(n < c, n, z3.IntVal(c))
            return z3.If(n + c < 0, z3.IntVal(0), n + c)
        adj = z3.If(xt < 0, n + xt, xt)
        return z3.If(adj < 0, z3.IntVal(0), z3.If(adj > n, n, adj))
    s = norm(lo, z3.IntVal(0))
    e = norm(hi, n)
    ln = z3.If(e - s < 0, z3.IntVal(0), e - s)
    return z3.simplify(s), z3.simplify(ln)


def flatten_units(t):
    """Element terms of a sequence term that is a concatenation of unit/empty terms (ite of equal-length
    unit sequences is pushed down to the elements), else None."""
    def walk(e):
        k = e.decl().kind()
        if k == z3.Z3_OP_SEQ_EMPTY:
            return []
        if k == z3.Z3_OP_SEQ_UNIT:
            return [e.arg(0)]
        if k == z3.Z3_OP_SEQ_CONCAT:
            out = []
            for c in e.children():
                r = walk(c)
                if r is None:
                    return None
                out.extend(r)
            return out
        if k == z3.Z3_OP_ITE:
            a, b = walk(e.arg(1)), walk(e.arg(2))
            if a is None or b is None or len(a) != len(b):
                return None
            return [z3.If(e.arg(0), x, y) for x, y in zip(a, b)]
        return None
    try:
        return walk(t)
    except Exception:
        return None


class _SeqBase(Sym):
    __slots__ = ()

    def length(self):
        return SInt(z3.simplify(z3.Length(self.t)))

    def __len__(self):
        raise Unsupported('len() of symbolic sequence must go through pyvc len model')

    def __bool__(self):
        return _ctx().branch(z3.Length(self.t) > 0)

    def _same(self, o):
        raise NotImplementedError

    def __eq__(self, o):
        ot = self._same(o)
        if ot is None:
            return False
        if not isinstance(self, SStr):
            # both sides of fixed length on this path: compare element-wise (keeps the query in integer arithmetic)
            a, b = flatten_units(self.t), flatten_units(ot)
            if a is not None and b is not None:
                if len(a) != len(b):
                    return False
                if not a:
                    return True
                return SBool(z3.And(*[x == y for x, y in zip(a, b)]))
        return SBool(self.t == ot)

    def __ne__(self, o):
        r = self.__eq__(o)
        return (not r) if isinstance(r, bool) else SBool(z3.Not(r.t))

    __hash__ = object.__hash__

    def __add__(self, o):
        ot = self._same(o)
        if ot is None:
            return NotImplemented
        return type(self)(z3.Concat(self.t, ot))

    def __radd__(self, o):
        ot = self._same(o)
        if ot is None:
            return NotImplemented
        return type(self)(z3.Concat(ot, self.t))

    def _elem(self, term):
        raise NotImplementedError

    def _slice_terms(self, k):
        """(start, length) z3 terms of a step-1 slice; clamping is dropped when the bounds are provably inside."""
        n = z3.Length(self.t)
        if k.step is not None and concrete_int(k.step) != 1:
            raise Unsupported('extended slice on symbolic sequence')
        lo_c, hi_c = concrete_int(k.start) if k.start is not None else 0, concrete_int(k.stop) if k.stop is not None else None
        neg = (lo_c is not None and lo_c < 0) or (hi_c is not None and hi_c < 0)
        if not neg and not isinstance(self, SStr):
            lo_t = z3.IntVal(0) if k.start is None else as_int_term(k.start)
            hi_t = n if k.stop is None else as_int_term(k.stop)
            try:
                ctx = _ctx()
            except RuntimeError:
                ctx = None
            if ctx is not None and proves(ctx, z3.And(lo_t >= 0, lo_t <= hi_t, hi_t <= n)):
                return z3.simplify(lo_t), z3.simplify(hi_t - lo_t), True
            if ctx is not None and k.stop is not None and proves(ctx, z3.And(lo_t >= 0, lo_t <= hi_t, lo_t <= n)):
                # only the upper bound may exceed the length: decide it by forking, so both pieces stay clamp-free
                if ctx.branch(hi_t <= n):
                    return z3.simplify(lo_t), z3.simplify(hi_t - lo_t), True
                return z3.simplify(lo_t), z3.simplify(n - lo_t), True
        s_, ln = _clamp_slice(n, k.start, k.stop)
        return s_, ln, False

    def __getitem__(self, k):
        n = z3.Length(self.t)
        if isinstance(k, slice):
            s_, ln, exact = self._slice_terms(k)
            if exact:
                r = rope_subseq(self.t, s_, ln)
                if r is not None:
                    return type(self)(r)
            return type(self)(z3.SubSeq(self.t, s_, ln))
        ck = concrete_int(k)
        if ck is not None and ck >= 0 and not isinstance(self, SStr):
            pre = prefix_units(self.t, ck + 1)
            if len(pre) > ck:
                return self._elem(pre[ck])
        it = _norm_index(n, k)
        ctx = _ctx()
        if not ctx.branch(z3.And(it >= 0, it < n)):
            from .interp import py_raise
            py_raise(IndexError('index out of range'))
        return self._elem(self.t[it])


def _segments(t):
    """Top-level concatenation children of a sequence term with their length terms."""
    out = []

    def walk(e):
        k = e.decl().kind()
        if k == z3.Z3_OP_SEQ_EMPTY:
            return
        if k == z3.Z3_OP_SEQ_CONCAT:
            for c in e.children():
                walk(c)
            return
        if k == z3.Z3_OP_SEQ_UNIT:
            out.append((e, z3.IntVal(1)))
            return
        out.append((e, z3.Length(e)))
    walk(t)
    return out


def _is_zero(t):
    s = z3.simplify(t)
    return z3.is_int_value(s) and s.as_long() == 0


def rope_subseq(t, start, length):
    """SubSeq(t, start, length) resolved structurally when start/length fall on segment boundaries of the
    concatenation t (offsets compared after arithmetic simplification); None if they do not."""
    segs = _segments(t)
    if not segs:
        return None
    off = z3.IntVal(0)
    i = 0
    while i < len(segs) and not _is_zero(start - off):
        off = off + segs[i][1]
        i += 1
        if i > 400:
            return None
    if not _is_zero(start - off):
        return None
    acc = z3.IntVal(0)
    picked = []
    j = i
    while not _is_zero(length - acc):
        if j >= len(segs):
            return None
        picked.append(segs[j][0])
        acc = acc + segs[j][1]
        j += 1
    if not picked:
        return z3.Empty(t.sort())
    return picked[0] if len(picked) == 1 else z3.Concat(*picked)


def prefix_units(t, limit):
    """Element terms of the longest prefix of the sequence term that consists of unit terms (up to `limit`)."""
    out = []

    def walk(e):
        if len(out) >= limit:
            return False
        k = e.decl().kind()
        if k == z3.Z3_OP_SEQ_EMPTY:
            return True
        if k == z3.Z3_OP_SEQ_UNIT:
            out.append(e.arg(0))
            return True
        if k == z3.Z3_OP_SEQ_CONCAT:
            for c in e.children():
                if not walk(c):
                    return False
            return True
        return False
    try:
        walk(t)
    except Exception:
        pass
    return out


class SBytes(_SeqBase):
    __slots__ = ()

    def _same(self, o):
        if isinstance(o, SBytes):
            return o.t
        if isinstance(o, (bytes, bytearray)):
            return bytes_const(bytes(o))
        return None

    def _elem(self, term):
        ctx = _ctx()
        ctx.assume(z3.And(term >= 0, term < 256), silent=True)
        return SInt(term)

    def __mul__(self, o):
        c = concrete_int(o)
        if c is None:
            raise Unsupported('bytes * symbolic')
        if c <= 0:
            return SBytes(z3.Empty(ByteSeq))
        r = self.t
        for _ in range(c - 1):
            r = z3.Concat(r, self.t)
        return SBytes(r)


class SStr(_SeqBase):
    __slots__ = ()

    def _same(self, o):
        if isinstance(o, SStr):
            return o.t
        if isinstance(o, str):
            return z3.StringVal(o)
        return None

    def _elem(self, term):
        return SStr(term)

    def __getitem__(self, k):
        n = z3.Length(self.t)
        if isinstance(k, slice):
            return _SeqBase.__getitem__(self, k)
        it = _norm_index(n, k)
        if not _ctx().branch(z3.And(it >= 0, it < n)):
            from .interp import py_raise
            py_raise(IndexError('string index out of range'))
        return SStr(z3.SubString(self.t, it, 1))

    def __mod__(self, o):
        raise Unsupported('symbolic str % args')

    def contains(self, sub):
        st = self._same(sub)
        if st is None:
            raise Unsupported('str contains non-str')
        return SBool(z3.Contains(self.t, st))


class SSeq(_SeqBase):
    """Immutable sequence of a single z3 sort; `wrap` turns an element term into a value."""
    __slots__ = ('wrap', 'unwrap')

    def __init__(self, t, wrap, unwrap):
        self.t = t
        self.wrap = wrap
        self.unwrap = unwrap

    def _same(self, o):
        if isinstance(o, SSeq):
            return o.t
        if isinstance(o, (list, tuple)):
            return self.const(o)
        return None

    def const(self, items):
        es = self.t.sort()
        if not items:
            return z3.Empty(es)
        units = [z3.Unit(self.unwrap(x)) for x in items]
        return units[0] if len(units) == 1 else z3.Concat(*units)

    def _elem(self, term):
        return self.wrap(term)

    def __add__(self, o):
        ot = self._same(o)
        if ot is None:
            return NotImplemented
        return SSeq(z3.Concat(self.t, ot), self.wrap, self.unwrap)

    def __getitem__(self, k):
        if isinstance(k, slice):
            s_, ln, exact = self._slice_terms(k)
            r = rope_subseq(self.t, s_, ln) if exact else None
            return SSeq(r if r is not None else z3.SubSeq(self.t, s_, ln), self.wrap, self.unwrap)
        return _SeqBase.__getitem__(self, k)


def int_seq(t):
    return SSeq(t, lambda e: SInt(e), as_int_term)


class SLow(Sym):
    """A Python int represented by a bit-vector.

    ub is None  ("low-W mode", A-BITS): only the low W bits are known; sound for ring operations (+ - * ^ | & ~),
                left shifts by constants and (x >> s) & m with m < 2**(W-s); anything else is Unsupported.
    ub = N      ("exact"): the true value is known to satisfy 0 <= value <= N < 2**W, so the vector *is* the value;
                comparisons, truthiness, conversion back to a mathematical int and right shifts are then exact.
                ub is propagated conservatively through every operation (lost when it would reach 2**W).
    """
    __slots__ = ('ub',)

    def __init__(self, t, ub=None):
        self.t = t
        self.ub = ub

    @staticmethod
    def of(v, W=64):
        if isinstance(v, SLow):
            if v.t.size() == W:
                return v
            if v.ub is not None and v.t.size() < W:
                return SLow(z3.ZeroExt(W - v.t.size(), v.t), v.ub)
            raise Unsupported('mixing bit-vector widths')
        if isinstance(v, _SLowShifted):
            raise Unsupported('low-mode right shift must be followed by a mask of the known bits')
        if isinstance(v, bool):
            v = int(v)
        if isinstance(v, int):
            return SLow(z3.BitVecVal(v % (1 << W), W), v if 0 <= v < (1 << W) else None)
        if isinstance(v, (SInt, SBool)):
            return SLow(z3.Int2BV(as_int_term(v), W))
        raise Unsupported('cannot view %r as a bit-vector' % (type(v).__name__,))

    def _w(self):
        return self.t.size()

    def _o(self, o):
        if isinstance(o, (SInt, SBool)) and self.ub is not None:
            try:
                return exact_bv(_ctx(), o, self._w())      # keep exactness when the other operand is provably bounded
            except Unsupported:
                return SLow.of(o, self._w())
        if isinstance(o, (SLow, int, SInt, SBool)) and not isinstance(o, float):
            return SLow.of(o, self._w())
        return None

    def _cap(self, ub):
        return ub if (ub is not None and 0 <= ub < (1 << self._w())) else None

    def _bin(self, o, f, fub):
        oo = self._o(o)
        if oo is None:
            return NotImplemented
        ub = None
        if self.ub is not None and oo.ub is not None:
            ub = self._cap(fub(self.ub, oo.ub))
        return SLow(f(self.t, oo.t), ub)

    @staticmethod
    def _bitsub(a, b):
        return (1 << max(a.bit_length(), b.bit_length())) - 1

    def __add__(self, o): return self._bin(o, lambda a, b: a + b, lambda a, b: a + b)
    __radd__ = __add__
    def __sub__(self, o): return self._bin(o, lambda a, b: a - b, lambda a, b: None)
    def __rsub__(self, o): return self._bin(o, lambda a, b: b - a, lambda a, b: None)
    def __mul__(self, o): return self._bin(o, lambda a, b: a * b, lambda a, b: a * b)
    __rmul__ = __mul__
    def __xor__(self, o): return self._bin(o, lambda a, b: a ^ b, SLow._bitsub)
    __rxor__ = __xor__

    def __or__(self, o):
        oo = self._o(o)
        if oo is None:
            return NotImplemented
        rot = _as_rotate(self.t, oo.t)
        if rot is None:
            rot = _as_rotate(oo.t, self.t)
        ub = self._cap(SLow._bitsub(self.ub, oo.ub)) if (self.ub is not None and oo.ub is not None) else None
        if rot is not None:
            return SLow(rot, ub)
        return SLow(self.t | oo.t, ub)
    __ror__ = __or__

    def __and__(self, o):
        oo = self._o(o)
        if oo is None:
            return NotImplemented
        ubs = [u for u in (self.ub, oo.ub) if u is not None]
        return SLow(self.t & oo.t, min(ubs) if ubs else None)
    __rand__ = __and__

    def __neg__(self):
        return SLow(-self.t)

    def __invert__(self):
        return SLow(~self.t)

    def __lshift__(self, o):
        c = concrete_int(o)
        if c is None or c < 0:
            raise Unsupported('bit-vector shift by symbolic amount')
        if c >= self._w():
            if self.ub is not None:
                raise Unsupported('exact bit-vector shifted out of its width')
            return SLow(z3.BitVecVal(0, self._w()))
        return SLow(self.t << c, self._cap(self.ub << c) if self.ub is not None else None)

    def __rshift__(self, o):
        c = concrete_int(o)
        if c is None or c < 0:
            raise Unsupported('bit-vector shift by symbolic amount')
        if self.ub is not None:
            return SLow(z3.LShR(self.t, c) if c < self._w() else z3.BitVecVal(0, self._w()), self.ub >> c)
        return _SLowShifted(self, c)

    def _need_exact(self, what):
        if self.ub is None:
            raise Unsupported('%s of an int known only modulo 2**%d' % (what, self._w()))

    def __bool__(self):
        self._need_exact('truth value')
        return _ctx().branch(self.t != 0)

    def _cmp(self, o, fbv, fint):
        self._need_exact('comparison')
        if isinstance(o, SLow) and o.ub is not None:
            oo = SLow.of(o, self._w())
            return SBool(fbv(self.t, oo.t))
        if isinstance(o, int) and not isinstance(o, bool) and 0 <= o < (1 << self._w()):
            return SBool(fbv(self.t, z3.BitVecVal(o, self._w())))
        if is_intlike(o):
            return SBool(fint(z3.BV2Int(self.t, is_signed=False), as_int_term(o)))
        return NotImplemented

    def __eq__(self, o):
        r = self._cmp(o, lambda a, b: a == b, lambda a, b: a == b)
        return False if r is NotImplemented else r

    def __ne__(self, o):
        r = self.__eq__(o)
        return (not r) if isinstance(r, bool) else SBool(z3.Not(r.t))

    def __lt__(self, o): return self._cmp(o, z3.ULT, lambda a, b: a < b)
    def __le__(self, o): return self._cmp(o, z3.ULE, lambda a, b: a <= b)
    def __gt__(self, o): return self._cmp(o, z3.UGT, lambda a, b: a > b)
    def __ge__(self, o): return self._cmp(o, z3.UGE, lambda a, b: a >= b)
    __hash__ = object.__hash__

    def signed(self):
        """The signed W-bit value as a mathematical int."""
        return SInt(z3.BV2Int(self.t, is_signed=True))

    def unsigned(self):
        return SInt(z3.BV2Int(self.t, is_signed=False))

    def to_int(self):
        self._need_exact('integer value')
        return SInt(z3.BV2Int(self.t, is_signed=False))


EXACT_W = 128


def _mod_pow2(t, k):
    """t mod 2**k with the reduction pushed through ite and through additions of multiples of 2**k; a bv2int of a
    vector of at most k bits is already reduced."""
    m = 1 << k
    try:
        if z3.is_int_value(t):
            return z3.IntVal(t.as_long() % m)
        bv = _bv_of_bv2int(t)
        if bv is not None and bv.size() <= k:
            return t
        if z3.is_app(t):
            kind = t.decl().kind()
            if kind == z3.Z3_OP_ITE:
                a, b = _mod_pow2(t.arg(1), k), _mod_pow2(t.arg(2), k)
                if a.eq(b):
                    return a
                return z3.If(t.arg(0), a, b)
            if kind == z3.Z3_OP_ADD:
                rest = [c for c in t.children() if not (z3.is_int_value(c) and c.as_long() % m == 0)]
                if len(rest) == 1 and len(rest) < t.num_args():
                    return _mod_pow2(rest[0], k)
            if kind == z3.Z3_OP_SUB and t.num_args() == 2 and z3.is_int_value(t.arg(1)) and t.arg(1).as_long() % m == 0:
                return _mod_pow2(t.arg(0), k)
    except Exception:
        pass
    return t % z3.IntVal(m)


def _mentions_bv2int(t, budget=400):
    """Does the Int term contain a bv2int leaf (bounded traversal; False when the budget runs out)?"""
    todo, seen = [t], 0
    try:
        while todo:
            x = todo.pop()
            seen += 1
            if seen > budget:
                return False
            if z3.is_app(x):
                if x.decl().kind() == z3.Z3_OP_BV2INT:
                    return True
                todo.extend(x.children())
    except Exception:
        return False
    return False


def _bv_of_bv2int(t):
    """If the Int term is bv2int(x) (unsigned), return x."""
    try:
        if z3.is_app(t) and t.decl().kind() == z3.Z3_OP_BV2INT:
            return t.arg(0)
    except Exception:
        pass
    return None


def exact_bv(ctx, v, W=EXACT_W):
    """View a non-negative int as an exact bit-vector; needs a provable upper bound below 2**W."""
    if isinstance(v, SLow):
        if v.ub is None:
            raise Unsupported('int known only modulo 2**W used where its exact value is needed')
        return SLow.of(v, W)
    c = concrete_int(v)
    if c is not None:
        if 0 <= c < (1 << W):
            return SLow(z3.BitVecVal(c, W), c)
        raise Unsupported('constant outside the exact bit-vector range')
    t = as_int_term(v)
    bv = _bv_of_bv2int(t)
    if bv is not None and bv.size() <= W:
        return SLow(z3.ZeroExt(W - bv.size(), bv) if bv.size() < W else bv, (1 << bv.size()) - 1)
    for k in (1, 8, 16, 17, 24, 25, 32, 34, 40, 41, 48, 51, 56, 64, 72, 96, 120):
        if k >= W:
            break
        if proves(ctx, z3.And(t >= 0, t < (1 << k))):
            return SLow(z3.Int2BV(t, W), (1 << k) - 1)
    raise Unsupported('no provable bound for the operand of a bitwise operation')


def _as_rotate(a, b):
    """(x << r) | (x >>> (W - r))  ==  rotate_left(x, r): recognise the idiom so both sides share one term."""
    try:
        if a.decl().kind() == z3.Z3_OP_BSHL and b.decl().kind() == z3.Z3_OP_BLSHR and a.arg(0).eq(b.arg(0)) \
                and z3.is_bv_value(a.arg(1)) and z3.is_bv_value(b.arg(1)):
            r, s_, W = a.arg(1).as_long(), b.arg(1).as_long(), a.size()
            if 0 < r < W and r + s_ == W:
                return z3.RotateLeft(a.arg(0), r)
    except Exception:
        pass
    return None


class _SLowShifted(object):
    """x >> s in low-W mode: only `& mask` with mask < 2**(W-s) may follow (the only bits that are known)."""

    def __init__(self, x, s):
        self.x = x
        self.s = s

    def __and__(self, o):
        m = concrete_int(o)
        W = self.x._w()
        if m is None or m < 0 or self.s >= W or m >= (1 << (W - self.s)):
            raise Unsupported('low-mode (x >> %d) & mask with mask outside the known bits' % self.s)
        if m == (1 << (W - self.s)) - 1:
            return SLow(z3.LShR(self.x.t, self.s))          # the mask keeps every bit the shift leaves
        return SLow(z3.LShR(self.x.t, self.s) & z3.BitVecVal(m, W))

    __rand__ = __and__

    def __rshift__(self, o):
        c = concrete_int(o)
        if c is None or c < 0:
            raise Unsupported('bit-vector shift by symbolic amount')
        return _SLowShifted(self.x, self.s + c)

    def _bad(self, *a, **k):
        raise Unsupported('low-mode right shift must be followed by a mask of the known bits')

    __or__ = __ror__ = __xor__ = __rxor__ = __add__ = __radd__ = __mul__ = __rmul__ = __sub__ = __rsub__ = _bad
    __bool__ = __eq__ = __lt__ = _bad
    __hash__ = object.__hash__


class SU(Sym):
    """Opaque value of an uninterpreted sort; supports == / != only; always truthy."""
    __slots__ = ()

    def __bool__(self):
        return True

    def __eq__(self, o):
        if isinstance(o, SU) and o.t.sort() == self.t.sort():
            return SBool(self.t == o.t)
        return False

    def __ne__(self, o):
        r = self.__eq__(o)
        return (not r) if isinstance(r, bool) else SBool(z3.Not(r.t))

    __hash__ = object.__hash__


# ---------------------------------------------------------------------------
# fixed-width big/little-endian integer <-> bytes (the struct model, E-STRUCT)

def int_to_bytes_be(xt, width, signed):
    """Seq(Int) of `width` big-endian bytes of the two's-complement of xt."""
    if signed:
        xt = z3.If(xt < 0, xt + _pow2(8 * width), xt)
    units = []
    for k in range(width - 1, -1, -1):
        units.append(z3.Unit(_div_const(xt, 1 << (8 * k)) % 256))
    return units[0] if width == 1 else z3.Concat(*units)


def bytes_to_int_be(seq_t, offset_t, width, signed):
    acc = z3.IntVal(0)
    for k in range(width):
        acc = acc * 256 + seq_t[offset_t + k]
    if signed:
        acc = z3.If(acc >= _pow2(8 * width - 1), acc - _pow2(8 * width), acc)
    return acc


def byte_range_facts(seq_t, offset_t, width):
    return z3.And(*[z3.And(seq_t[offset_t + k] >= 0, seq_t[offset_t + k] < 256) for k in range(width)])
