"""Native replay: runs under the interpreter of the test suite (/venv/bin/python, cwd = repo).

stdin: {"spec": "contracts.native_cXX:func", "model": {...}, "obligation": "..."}
stdout (last line): {"reproduced": bool, "detail": str}
No z3 here: the replay functions call the real repository code with the concrete
counter-model and evaluate the contract's postcondition natively.
"""
import importlib
import json
import os
import sys
import traceback


def main():
    req = json.loads(sys.stdin.read())
    sys.path.insert(0, os.getcwd())
    modname, _, fname = req['spec'].partition(':')
    try:
        mod = importlib.import_module(modname)
        fn = getattr(mod, fname)
        res = fn(req['model'], req.get('obligation', ''))
        if isinstance(res, tuple):
            res = {'reproduced': bool(res[0]), 'detail': str(res[1])}
    except Exception:
        res = {'reproduced': False, 'detail': 'replay harness error: ' + traceback.format_exc()[-1500:]}
    print(json.dumps(res, default=str))


if __name__ == '__main__':
    main()
