"""Spec-level recursive functions as uninterpreted symbols plus *definitional* ground instances.

Never handed to the solver as recursive/quantified definitions (DESIGN 2.15): each helper returns the
term and adds, silently, instances of the function's defining equations at the arguments it is given.
These instances are sound by definition of the function.  Genuine lemmas about the functions (not
instances of the defining equations) are listed separately by the contracts as assumed lemmas.

  pow2(k)   = 2**k                       pow2(0)=1, pow2(k+1)=2*pow2(k)
  P256(k)   = 256**k = pow2(8k)          P256(0)=1, P256(k+1)=256*P256(k)
  LE(s)     = sum s[j]*256**j            LE(empty)=0, LE(s ++ [d]) = LE(s) + d*P256(len s)
  REV(s)    = reversed sequence          (pyvc.libmodels.seq_reverse)
"""
import z3
from . import sym
from .sym import SInt, SBytes, as_int_term
from .libmodels import _POW2, _REV

LE_F = z3.Function('le_value', sym.ByteSeq, z3.IntSort())


def pow2(ctx, k):
    kt = as_int_term(k)
    t = _POW2(kt)
    ctx.assume(z3.And(_POW2(z3.IntVal(0)) == 1, z3.Implies(kt >= 0, t >= 1),
                      z3.Implies(kt >= 0, _POW2(kt + 1) == 2 * t),
                      z3.Implies(kt >= 1, t == 2 * _POW2(kt - 1))), silent=True)
    return SInt(t)


def P256(ctx, k):
    """256**k as pow2(8k), with the defining instances at k, k+1 and k-1."""
    kt = as_int_term(k)
    t = _POW2(8 * kt)
    ctx.assume(z3.And(_POW2(z3.IntVal(0)) == 1, z3.Implies(kt >= 0, t >= 1),
                      z3.Implies(kt >= 0, _POW2(8 * kt + 8) == 256 * t),
                      z3.Implies(kt >= 0, _POW2(8 * kt + 7) == 128 * t),
                      z3.Implies(kt >= 1, t == 256 * _POW2(8 * kt - 8)),
                      z3.Implies(kt >= 1, _POW2(8 * kt - 1) * 2 == t),
                      z3.Implies(kt >= 1, _POW2(8 * kt - 1) == 128 * _POW2(8 * kt - 8))), silent=True)
    return SInt(t)


def pow2_split(ctx, k, base8):
    """Definitional chain linking pow2(k) with pow2(8*base8) when 8*base8 <= k < 8*base8 + 8 (k = 8*base8 + r)."""
    kt, bt = as_int_term(k), as_int_term(base8)
    facts = []
    for r in range(0, 9):
        facts.append(_POW2(8 * bt + r) == (1 << r) * _POW2(8 * bt))
    facts.append(z3.Implies(bt >= 1, _POW2(8 * bt - 1) * 2 == _POW2(8 * bt)))
    ctx.assume(z3.Implies(bt >= 0, z3.And(*facts)), silent=True)


def LE(ctx, s):
    """Little-endian value of a byte sequence (uninterpreted), with LE(empty) = 0."""
    st = sym.lift(s).t
    t = LE_F(st)
    ctx.assume(z3.And(LE_F(z3.Empty(sym.ByteSeq)) == 0, t >= 0), silent=True)
    return SInt(t)


def LE_append(ctx, s, d):
    """Defining instance LE(s ++ [d]) == LE(s) + d * 256**len(s)."""
    st = sym.lift(s).t
    dt = as_int_term(d)
    n = z3.Length(st)
    p = P256(ctx, SInt(n))
    ctx.assume(LE_F(z3.Concat(st, z3.Unit(dt))) == LE_F(st) + dt * p.t, silent=True)


def REV(s):
    return SBytes(_REV(sym.lift(s).t))
