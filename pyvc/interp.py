"""AST interpreter for the real repository source with symbolic values.

The functions of /repo are never re-written: `get_func_ast` locates the
FunctionDef of a live function object in the file it was compiled from and the
interpreter executes that AST.  Values are ordinary Python objects wherever
they are concrete and `pyvc.sym` values where symbolic; instances of repository
classes are `SObj` records (class + attribute dict).
"""
import ast
import builtins
import hashlib
import importlib
import inspect
import operator
import os
import sys
import types

import z3

from . import sym
from .sym import (Unsupported, Sym, SBool, SInt, SBytes, SStr, SReal, SSeq, SU, is_sym, lift)
from .engine import PathAbort, Undecided

REPO = os.environ.get('VERIF_REPO', '/repo')
MAX_UNROLL = int(os.environ.get('PYVC_MAX_UNROLL', '80'))
MAX_DEPTH = 60


# ---------------------------------------------------------------------------
# Python-level exceptions travelling through interpreted code

class PyExc(Exception):
    def __init__(self, value, tb=None):
        Exception.__init__(self, value)
        self.value = value

    def __str__(self):
        v = self.value
        if isinstance(v, SObj):
            return '%s%r' % (v.cls.__name__, v.attrs.get('args', ()),)
        return '%s: %s' % (type(v).__name__, v)


def py_raise(exc):
    raise PyExc(exc)


def exc_class(v):
    if isinstance(v, SObj):
        return v.cls
    if isinstance(v, type):
        return v
    return type(v)


class _Return(Exception):
    def __init__(self, value):
        self.value = value


class _Break(Exception):
    pass


class _Continue(Exception):
    pass


_ENGINE_EXC = (PathAbort, Unsupported, Undecided, PyExc, _Return, _Break, _Continue, RecursionError)


# ---------------------------------------------------------------------------
# object model

class SObj(object):
    """Instance of a (real) class with an explicit attribute dictionary."""

    def __init__(self, cls, attrs=None, lazy=None):
        self.cls = cls
        self.attrs = attrs if attrs is not None else {}
        self.lazy = lazy       # optional callable(name) -> value for attributes created on first read
        self.on_set = None     # optional callable(name, value): observes every attribute write (frame / lock discipline)
        self.on_get = None     # optional callable(name, value) -> value: observes/replaces attribute reads

    def __repr__(self):
        return '<SObj %s %s>' % (self.cls.__name__, sorted(self.attrs))


class BoundMethod(object):
    def __init__(self, func, self_obj, defcls=None):
        self.func = func
        self.self_obj = self_obj
        self.defcls = defcls

    def __repr__(self):
        return '<BoundMethod %s of %r>' % (getattr(self.func, '__name__', self.func), self.self_obj)


class MBytes(object):
    """Mutable byte buffer (bytearray) with symbolic content."""

    def __init__(self, content):
        self.content = content      # SBytes or bytes

    def get(self):
        return lift(self.content)


class GenList(object):
    """A generator evaluated eagerly (laziness not modelled: A-GEN)."""

    def __init__(self, items, pending=None):
        self.items = list(items)
        self.pos = 0
        self.pending = pending      # exception the generator body ended with (raised after the last yielded item)

    def __iter__(self):
        return self

    def __next__(self):
        if self.pos >= len(self.items):
            if self.pending is not None:
                e, self.pending = self.pending, None
                raise e
            raise StopIteration
        v = self.items[self.pos]
        self.pos += 1
        return v


class CoroutineModel(object):
    """The result of calling an `async def` function: the body has not run yet; run() executes it to completion on the spot (the harness decides when -
    that is the event loop's scheduling decision).  Every `await` inside increments ctx.ghost['await_points'], so a harness can tell whether two effects were
    separated by a point at which the event loop may run another task."""

    def __init__(self, name, thunk):
        self.name, self.thunk, self.done, self.value = name, thunk, False, None

    def run(self):
        if self.done:
            py_raise(RuntimeError('cannot reuse already awaited coroutine'))
        self.done = True
        self.value = self.thunk()
        return self.value

    def __repr__(self):
        return '<coroutine %s>' % self.name


class SuperProxy(object):
    def __init__(self, after_cls, obj):
        self.after_cls = after_cls
        self.obj = obj


class InterpFunction(object):
    def __init__(self, node, frame, name, defcls=None):
        self.node = node
        self.frame = frame         # defining frame (closure)
        self.__name__ = name
        self.defcls = defcls
        self.defaults = None
        self.kw_defaults = None


class Frame(object):
    def __init__(self, globs, parent=None, defcls=None, fkey=None, fname='?'):
        self.locals = {}
        self.globs = globs
        self.parent = parent
        self.defcls = defcls
        self.fkey = fkey
        self.fname = fname
        self.nonlocals = set()
        self.globals_decl = set()
        self.cells = {}       # closure cell contents for real closures
        self.loop_counter = 0
        self.cur_exc = None
        self.yields = None

    def lookup(self, name):
        f = self
        while f is not None:
            if name in f.locals:
                return f.locals[name]
            if name in f.cells:
                return f.cells[name]
            f = f.parent
        if name in self.globs:
            return self.globs[name]
        if hasattr(builtins, name):
            return getattr(builtins, name)
        py_raise(NameError("name '%s' is not defined" % name))

    def store(self, name, value):
        if name in self.globals_decl:
            self.globs[name] = value
            return
        if name in self.nonlocals:
            f = self.parent
            while f is not None:
                if name in f.locals:
                    f.locals[name] = value
                    return
                f = f.parent
        self.locals[name] = value


_LOOP_LOCALS = None


def alpha_name(frame, name):
    """A loop contract names the locals of the function as they were called when the contract was written (contracts/loop_locals.json records the binding order
    of every function with a loop contract).  When a local of that name no longer exists but the function still binds the same NUMBER of locals in the same order,
    the local was renamed: the contract's name stands for the local bound at the same position.  Anything else is not guessed (None)."""
    global _LOOP_LOCALS
    if _LOOP_LOCALS is None:
        import json
        import os
        p = os.path.join(os.path.dirname(os.path.dirname(os.path.abspath(__file__))), 'contracts', 'loop_locals.json')
        _LOOP_LOCALS = json.load(open(p)) if os.path.exists(p) else {}
    pinned = _LOOP_LOCALS.get(getattr(frame, 'qual', None))
    cur = getattr(frame, 'varnames', None)
    if not pinned or not cur or name not in pinned or len(pinned) != len(cur):
        return None
    alt = cur[pinned.index(name)]
    if alt == name or alt in pinned:
        return None
    return alt


class LocalsView(object):
    """Attribute-style read access to a frame's locals for loop invariants."""

    def __init__(self, frame, extra=None):
        object.__setattr__(self, '_f', frame)
        object.__setattr__(self, '_x', extra or {})

    def __getattr__(self, name):
        x = object.__getattribute__(self, '_x')
        if name in x:
            return x[name]
        f = object.__getattribute__(self, '_f')
        if name not in f.locals:
            alt = alpha_name(f, name)
            if alt is not None:
                return f.lookup(alt)
        return f.lookup(name)

    def __contains__(self, name):
        f = object.__getattribute__(self, '_f')
        return name in f.locals or name in object.__getattribute__(self, '_x')


# ---------------------------------------------------------------------------
# locating source

_file_cache = {}


def _parse_file(path):
    ent = _file_cache.get(path)
    if ent is None:
        with open(path, 'r') as f:
            src = f.read()
        tree = ast.parse(src, path)
        index = {}
        for node in ast.walk(tree):
            if isinstance(node, (ast.FunctionDef, ast.AsyncFunctionDef, ast.Lambda)):
                index.setdefault(node.lineno, []).append(node)
                for d in getattr(node, 'decorator_list', []):
                    index.setdefault(d.lineno, []).append(node)
        ent = (src, tree, index)
        _file_cache[path] = ent
    return ent


def get_func_ast(fn):
    code = fn.__code__
    path = code.co_filename
    src, tree, index = _parse_file(path)
    cands = [n for n in index.get(code.co_firstlineno, [])
             if (isinstance(n, ast.Lambda) and code.co_name == '<lambda>') or getattr(n, 'name', None) == code.co_name]
    if not cands:
        raise Undecided('source of %s not found at %s:%d' % (code.co_name, path, code.co_firstlineno))
    if len(cands) > 1 and isinstance(cands[0], ast.Lambda):
        # several lambdas on one line: disambiguate by argument names
        names = code.co_varnames[:code.co_argcount]
        cands = [n for n in cands if tuple(a.arg for a in n.args.args) == tuple(names)] or cands
    return cands[0], path, src


def func_source_hash(fn):
    node, path, src = get_func_ast(fn)
    seg = ast.get_source_segment(src, node) or ''
    return hashlib.sha256(seg.encode('utf-8')).hexdigest()[:16], path, node.lineno


def is_repo_function(fn):
    code = getattr(fn, '__code__', None)
    if code is None:
        return False
    p = code.co_filename
    return p.startswith(REPO + os.sep)


def resolve(qualname):
    parts = qualname.split('.')
    mod = None
    i = len(parts)
    while i > 0:
        try:
            mod = importlib.import_module('.'.join(parts[:i]))
            break
        except ImportError:
            i -= 1
    if mod is None:
        raise Undecided('cannot import %s' % qualname)
    obj = mod
    owner = None
    for p in parts[i:]:
        owner = obj
        if isinstance(obj, type):
            raw = None
            for k in obj.__mro__:
                if p in vars(k):
                    raw = vars(k)[p]
                    break
            if raw is None:
                raise Undecided('%s has no attribute %s' % (obj, p))
            if isinstance(raw, (staticmethod, classmethod)):
                obj = raw.__func__ if isinstance(raw, staticmethod) else BoundMethod(raw.__func__, owner, None)
            elif isinstance(raw, property):
                obj = raw.fget
            else:
                obj = raw
        else:
            if not hasattr(obj, p):
                raise Undecided('%s has no attribute %s' % (obj, p))
            obj = getattr(obj, p)
    return obj


def function_hashes(run):
    out = {}
    for q, info in run.functions.items():
        d = dict(info)
        try:
            obj = resolve(q)
            f = obj.func if isinstance(obj, BoundMethod) else getattr(obj, '__func__', obj)
            f = getattr(f, '__wrapped__', f) if not hasattr(f, '__code__') else f
            h, path, line = func_source_hash(f)
            d.update({'sha256_16': h, 'file': os.path.relpath(path, REPO), 'line': line})
        except Exception as e:
            d['error'] = str(e)
        out[q] = d
    return out


# ---------------------------------------------------------------------------
# helpers on values

def deep_concrete(v, depth=0):
    if isinstance(v, (Sym, SObj, MBytes, InterpFunction, BoundMethod, SuperProxy)) or type(v).__name__ in ('MBytesIO', 'PartialModel'):
        return False
    if depth > 6:
        return True
    if isinstance(v, (list, tuple, set, frozenset)):
        return all(deep_concrete(x, depth + 1) for x in v)
    if isinstance(v, dict):
        return all(deep_concrete(k, depth + 1) and deep_concrete(x, depth + 1) for k, x in v.items())
    return True


def truth(ctx, v):
    if isinstance(v, bool):
        return v
    if v is None:
        return False
    if isinstance(v, SBool):
        return ctx.branch(v.t)
    if isinstance(v, SInt):
        return ctx.branch(v.t != 0)
    if isinstance(v, SReal):
        return ctx.branch(v.t != 0)
    if isinstance(v, (SBytes, SStr, SSeq)):
        return ctx.branch(z3.Length(v.t) > 0)
    if isinstance(v, SU):
        return True
    if isinstance(v, MBytes):
        return truth(ctx, v.get())
    if isinstance(v, SObj):
        m = static_lookup(v.cls, '__bool__')
        if m is not None and is_repo_function(m[0]):
            return truth(ctx, call_value(ctx, BoundMethod(m[0], v, m[1]), [], {}))
        m = static_lookup(v.cls, '__len__')
        if m is not None and is_repo_function(m[0]):
            return truth(ctx, call_value(ctx, BoundMethod(m[0], v, m[1]), [], {}) != 0)
        return True
    if isinstance(v, (InterpFunction, BoundMethod, GenList)):
        return True
    try:
        return bool(v)
    except _ENGINE_EXC:
        raise
    except Exception as e:
        raise PyExc(e)


def py_eq(ctx, a, b):
    """Python == (returns bool or SBool)."""
    if isinstance(a, MBytes):
        a = a.get()
    if isinstance(b, MBytes):
        b = b.get()
    if isinstance(a, SObj) or isinstance(b, SObj):
        for x, y in ((a, b), (b, a)):
            if isinstance(x, SObj):
                m = static_lookup(x.cls, '__eq__')
                if m is not None and is_repo_function(m[0]):
                    r = call_value(ctx, BoundMethod(m[0], x, m[1]), [y], {})
                    if r is not NotImplemented:
                        return r
        return a is b
    if isinstance(a, (list, tuple)) and isinstance(b, (list, tuple)) and type(a) is type(b):
        if len(a) != len(b):
            return False
        res = True
        for x, y in zip(a, b):
            e = py_eq(ctx, x, y)
            if e is False:
                return False
            res = sym.and_(res, e) if (is_sym(res) or is_sym(e)) else (res and e)
        return res
    if isinstance(a, Sym):
        return a.__eq__(b)
    if isinstance(b, Sym):
        return b.__eq__(a)
    try:
        return a == b
    except _ENGINE_EXC:
        raise
    except Exception as e:
        raise PyExc(e)


def static_lookup(cls, name):
    """(raw attribute, defining class) along the MRO, or None."""
    for k in cls.__mro__:
        d = vars(k)
        if name in d:
            return d[name], k
    return None


def make_exception(ctx, cls, args, kwargs):
    """Instantiate an exception class."""
    if deep_concrete(args) and deep_concrete(kwargs) and not _has_repo_init(cls):
        try:
            return cls(*args, **kwargs)
        except Exception as e:
            raise PyExc(e)
    obj = SObj(cls, {'args': tuple(args)})
    init = static_lookup(cls, '__init__')
    if init is not None and is_repo_function(init[0]):
        call_value(ctx, BoundMethod(init[0], obj, init[1]), list(args), dict(kwargs))
    return obj


def _has_repo_init(cls):
    init = static_lookup(cls, '__init__')
    return init is not None and isinstance(init[0], types.FunctionType) and is_repo_function(init[0])


# ---------------------------------------------------------------------------
# attribute access

def get_attr(ctx, obj, name):
    from . import libmodels
    if isinstance(obj, SObj):
        if name in obj.attrs:
            if obj.on_get is not None:
                return obj.on_get(name, obj.attrs[name])
            return obj.attrs[name]
        if name == '__class__':
            return obj.cls
        if name == '__dict__':
            return obj.attrs
        r = static_lookup(obj.cls, name)
        if r is not None:
            raw, k = r
            if isinstance(raw, types.FunctionType):
                return BoundMethod(raw, obj, k)
            if isinstance(raw, classmethod):
                return BoundMethod(raw.__func__, obj.cls, k)
            if isinstance(raw, staticmethod):
                return raw.__func__
            if isinstance(raw, property):
                return call_value(ctx, BoundMethod(raw.fget, obj, k), [], {})
            if isinstance(raw, (types.MemberDescriptorType, types.GetSetDescriptorType)):
                pass
            elif hasattr(raw, '__get__') and not isinstance(raw, type) and type(raw).__module__ != 'builtins' \
                    and not isinstance(raw, (int, str, bytes, float, tuple, frozenset)):
                # other descriptors (e.g. functools.total_ordering results are plain functions; builtin slots)
                try:
                    return raw.__get__(None, obj.cls)
                except Exception:
                    return raw
            else:
                if isinstance(raw, (types.BuiltinFunctionType, types.WrapperDescriptorType, types.MethodDescriptorType)):
                    return libmodels.builtin_method_on_sobj(obj, name, raw)
                return raw
        if obj.lazy is not None:
            v = obj.lazy(name)
            if v is not libmodels.MISSING:
                obj.attrs[name] = v
                return v
        ga = static_lookup(obj.cls, '__getattr__')
        if ga is not None and is_repo_function(ga[0]):
            return call_value(ctx, BoundMethod(ga[0], obj, ga[1]), [name], {})
        py_raise(AttributeError("'%s' object has no attribute '%s'" % (obj.cls.__name__, name)))
    if isinstance(obj, SuperProxy):
        target = obj.obj
        cls = target.cls if isinstance(target, SObj) else (target if isinstance(target, type) else type(target))
        mro = cls.__mro__
        idx = mro.index(obj.after_cls) + 1 if obj.after_cls in mro else 0
        for k in mro[idx:]:
            if name in vars(k):
                raw = vars(k)[name]
                if isinstance(raw, types.FunctionType):
                    return BoundMethod(raw, target, k)
                if isinstance(raw, classmethod):
                    return BoundMethod(raw.__func__, cls, k)
                if isinstance(raw, staticmethod):
                    return raw.__func__
                return libmodels.builtin_method_on_sobj(target, name, raw)
        py_raise(AttributeError('super has no attribute %s' % name))
    if isinstance(obj, (Sym, MBytes)):
        return libmodels.sym_method(ctx, obj, name)
    if isinstance(obj, libmodels.MBytesIO):
        return libmodels._bio_method(ctx, obj, name)
    if isinstance(obj, InterpFunction):
        if name == '__name__':
            return obj.__name__
        py_raise(AttributeError(name))
    if isinstance(obj, BoundMethod):
        if name == '__self__':
            return obj.self_obj
        if name == '__func__':
            return obj.func
        if name == '__name__':
            return getattr(obj.func, '__name__', '?')
        py_raise(AttributeError(name))
    try:
        return getattr(obj, name)
    except _ENGINE_EXC:
        raise
    except Exception as e:
        raise PyExc(e)


def set_attr(ctx, obj, name, value):
    if isinstance(obj, SObj):
        r = static_lookup(obj.cls, name)
        if r is not None and isinstance(r[0], property):
            if r[0].fset is None:
                py_raise(AttributeError("can't set attribute %s" % name))
            call_value(ctx, BoundMethod(r[0].fset, obj, r[1]), [value], {})
            return
        sa = static_lookup(obj.cls, '__setattr__')
        if sa is not None and is_repo_function(sa[0]):
            call_value(ctx, BoundMethod(sa[0], obj, sa[1]), [name, value], {})
            return
        if obj.on_set is not None:
            obj.on_set(name, value)
        obj.attrs[name] = value
        return
    if isinstance(obj, (Sym, InterpFunction)):
        raise Unsupported('setattr on %r' % (obj,))
    try:
        setattr(obj, name, value)
    except _ENGINE_EXC:
        raise
    except Exception as e:
        raise PyExc(e)


# ---------------------------------------------------------------------------
# calls

def call_value(ctx, fn, args, kwargs):
    from . import libmodels
    from .engine import _fkey
    # contracts substituted for callees
    if ctx.stubs:
        key = _fkey(fn.func if isinstance(fn, BoundMethod) else fn)
        stub = ctx.stubs.get(key)
        if stub is not None:
            if isinstance(fn, BoundMethod):
                return stub(fn.self_obj, *args, **kwargs)
            if isinstance(fn, types.MethodType) and is_repo_function(fn.__func__):
                return stub(fn.__self__, *args, **kwargs)
            return stub(*args, **kwargs)
    if isinstance(fn, libmodels.PartialModel):
        kw = dict(fn.keywords)
        kw.update(kwargs)
        return call_value(ctx, fn.func, list(fn.args) + list(args), kw)
    if isinstance(fn, BoundMethod):
        f = fn.func
        if isinstance(f, (types.FunctionType, InterpFunction)):
            return call_function(ctx, f, [fn.self_obj] + list(args), kwargs, defcls=fn.defcls)
        return call_value(ctx, f, [fn.self_obj] + list(args), kwargs)
    if isinstance(fn, InterpFunction):
        return call_function(ctx, fn, args, kwargs, defcls=fn.defcls)
    if isinstance(fn, types.MethodType):
        f = fn.__func__
        if isinstance(f, types.FunctionType) and is_repo_function(f):
            return call_function(ctx, f, [fn.__self__] + list(args), kwargs, defcls=_defcls_of(fn))
        if isinstance(f, types.FunctionType) and _is_verif_function(f):
            return fn(*args, **kwargs)
    model = libmodels.lookup_model(fn)
    if model is not None:
        return model(ctx, *args, **kwargs)
    if isinstance(fn, (types.WrapperDescriptorType, types.MethodDescriptorType)) and args and isinstance(args[0], SObj):
        return libmodels.builtin_method_on_sobj(args[0], fn.__name__, fn)(*args[1:], **kwargs)
    if isinstance(fn, types.FunctionType):
        if is_repo_function(fn):
            return call_function(ctx, fn, args, kwargs)
        if _is_verif_function(fn):
            return fn(*args, **kwargs)          # spec / contract helpers operate on Sym natively
    if isinstance(fn, type):
        return instantiate(ctx, fn, args, kwargs)
    if isinstance(fn, SObj):
        m = static_lookup(fn.cls, '__call__')
        if m is not None:
            return call_value(ctx, BoundMethod(m[0], fn, m[1]), args, kwargs)
        py_raise(TypeError('object not callable'))
    # native call
    if libmodels.native_ok_with_sym(fn, args, kwargs) or (deep_concrete(args) and deep_concrete(kwargs)):
        if not callable(fn):
            py_raise(TypeError('%r is not callable' % (fn,)))
        try:
            return fn(*args, **kwargs)
        except _ENGINE_EXC:
            raise
        except StopIteration as e:
            raise PyExc(e)
        except Exception as e:
            raise PyExc(e)
    raise Unsupported('call of %r with symbolic arguments has no model' % (fn,))


def _is_verif_function(fn):
    p = fn.__code__.co_filename
    return '/verif/' in p or p.startswith(os.path.dirname(os.path.dirname(os.path.abspath(__file__))))


def _defcls_of(meth):
    owner = meth.__self__ if isinstance(meth.__self__, type) else type(meth.__self__)
    name = meth.__func__.__name__
    for k in owner.__mro__:
        if vars(k).get(name) is not None:
            raw = vars(k)[name]
            f = getattr(raw, '__func__', raw)
            if f is meth.__func__:
                return k
    return None


def instantiate(ctx, cls, args, kwargs):
    from . import libmodels
    if isinstance(cls, type) and issubclass(cls, BaseException):
        return make_exception(ctx, cls, args, kwargs)
    mod = getattr(cls, '__module__', '')
    f = sys.modules.get(mod)
    path = getattr(f, '__file__', '') or ''
    if path.startswith(REPO + os.sep):
        new = static_lookup(cls, '__new__')
        if new is not None and isinstance(new[0], staticmethod) and is_repo_function(new[0].__func__):
            obj = call_function(ctx, new[0].__func__, [cls] + list(args), kwargs, defcls=new[1])
            if not (isinstance(obj, SObj) and issubclass(obj.cls, cls)):
                return obj
        else:
            if issubclass(cls, tuple) and hasattr(cls, '_fields'):
                # namedtuple
                try:
                    vals = cls._make(list(args) + [kwargs[k] for k in cls._fields[len(args):]]) \
                        if deep_concrete(args) and deep_concrete(kwargs) else None
                except Exception as e:
                    raise PyExc(e)
                if vals is not None:
                    return vals
                fields = list(cls._fields)
                d = dict(zip(fields, args))
                d.update(kwargs)
                return SObj(cls, d)
            obj = SObj(cls, {})
        init = static_lookup(cls, '__init__')
        if init is not None and isinstance(init[0], types.FunctionType) and is_repo_function(init[0]):
            call_function(ctx, init[0], [obj] + list(args), kwargs, defcls=init[1])
        return obj
    if deep_concrete(args) and deep_concrete(kwargs):
        try:
            return cls(*args, **kwargs)
        except _ENGINE_EXC:
            raise
        except Exception as e:
            raise PyExc(e)
    raise Unsupported('constructor %r with symbolic arguments has no model' % (cls,))


def bind_args(ctx, node_args, fname, args, kwargs, defaults, kw_defaults):
    """Python argument binding for an ast.arguments."""
    params = [a.arg for a in getattr(node_args, 'posonlyargs', [])] + [a.arg for a in node_args.args]
    out = {}
    args = list(args)
    kwargs = dict(kwargs)
    npos = len(params)
    for i, p in enumerate(params):
        if i < len(args):
            if p in kwargs:
                py_raise(TypeError('%s() got multiple values for argument %s' % (fname, p)))
            out[p] = args[i]
        elif p in kwargs:
            out[p] = kwargs.pop(p)
        else:
            di = i - (npos - len(defaults))
            if di >= 0:
                out[p] = defaults[di]
            else:
                py_raise(TypeError("%s() missing required positional argument: '%s'" % (fname, p)))
    extra = args[npos:]
    if node_args.vararg is not None:
        out[node_args.vararg.arg] = tuple(extra)
    elif extra:
        py_raise(TypeError('%s() takes %d positional arguments but %d were given' % (fname, npos, len(args))))
    for a, d in zip(node_args.kwonlyargs, kw_defaults):
        if a.arg in kwargs:
            out[a.arg] = kwargs.pop(a.arg)
        elif d is not _NODEFAULT:
            out[a.arg] = d
        else:
            py_raise(TypeError("%s() missing keyword-only argument '%s'" % (fname, a.arg)))
    if node_args.kwarg is not None:
        out[node_args.kwarg.arg] = kwargs
    elif kwargs:
        py_raise(TypeError("%s() got an unexpected keyword argument '%s'" % (fname, sorted(kwargs)[0])))
    return out


_NODEFAULT = object()


def _contains_yield(node):
    for n in _walk_local(node):
        if isinstance(n, (ast.Yield, ast.YieldFrom)):
            return True
    return False


def _walk_local(node):
    """ast.walk that does not descend into nested function definitions / lambdas / classes."""
    todo = list(ast.iter_child_nodes(node))
    while todo:
        n = todo.pop()
        yield n
        if isinstance(n, (ast.FunctionDef, ast.AsyncFunctionDef, ast.Lambda, ast.ClassDef)):
            continue
        todo.extend(ast.iter_child_nodes(n))


def call_function(ctx, fn, args, kwargs, defcls=None):
    from .engine import _fkey
    ctx.depth += 1
    if ctx.depth > MAX_DEPTH:
        ctx.depth -= 1
        raise Undecided('interpreted call depth exceeded')
    try:
        if isinstance(fn, InterpFunction):
            node = fn.node
            globs = fn.frame.globs
            frame = Frame(globs, parent=fn.frame, defcls=defcls or fn.defcls, fkey=('interp', id(node)), fname=fn.__name__)
            defaults, kw_defaults = fn.defaults, fn.kw_defaults
            name = fn.__name__
        else:
            node, path, src = get_func_ast(fn)
            globs = fn.__globals__
            if defcls is None:
                defcls = _guess_defcls(fn)
            frame = Frame(globs, defcls=defcls, fkey=_fkey(fn), fname=fn.__qualname__)
            frame.qual = getattr(fn, '__module__', '?') + '.' + fn.__qualname__
            frame.varnames = list(getattr(getattr(fn, '__code__', None), 'co_varnames', ()) or ())
            if fn.__closure__:
                for nm, cell in zip(fn.__code__.co_freevars, fn.__closure__):
                    try:
                        frame.cells[nm] = cell.cell_contents
                    except ValueError:
                        pass
            defaults = list(fn.__defaults__ or ())
            kwd = fn.__kwdefaults__ or {}
            kw_defaults = [kwd.get(a.arg, _NODEFAULT) for a in node.args.kwonlyargs]
            name = fn.__name__
            q = fn.__module__ + '.' + fn.__qualname__
            if is_repo_function(fn):
                ctx.run.functions.setdefault(q, {'role': 'inlined'})
        frame.locals.update(bind_args(ctx, node.args, name, args, kwargs, defaults, kw_defaults))
        it = Interp(ctx, frame)
        if isinstance(node, ast.Lambda):
            return it.eval(node.body)
        if isinstance(node, ast.AsyncFunctionDef):
            def thunk(it=it, node=node):
                try:
                    it.exec_block(node.body)
                except _Return as r:
                    return r.value
                return None
            return CoroutineModel(name, thunk)
        if _contains_yield(node):
            frame.yields = []
            try:
                it.exec_block(node.body)
            except _Return:
                pass
            except PyExc as e:
                # a generator raises where the consumer reaches that point, not at the call
                return GenList(frame.yields, pending=e)
            return GenList(frame.yields)
        try:
            it.exec_block(node.body)
        except _Return as r:
            return r.value
        return None
    finally:
        ctx.depth -= 1


def _guess_defcls(fn):
    qn = fn.__qualname__.split('.')
    if len(qn) < 2 or '<locals>' in qn:
        return None
    mod = sys.modules.get(fn.__module__)
    obj = mod
    try:
        for p in qn[:-1]:
            obj = getattr(obj, p)
    except AttributeError:
        return None
    return obj if isinstance(obj, type) else None


# ---------------------------------------------------------------------------
# the interpreter proper

_BINOPS = {
    ast.Add: operator.add, ast.Sub: operator.sub, ast.Mult: operator.mul, ast.FloorDiv: operator.floordiv,
    ast.Mod: operator.mod, ast.Pow: operator.pow, ast.LShift: operator.lshift, ast.RShift: operator.rshift,
    ast.BitAnd: operator.and_, ast.BitOr: operator.or_, ast.BitXor: operator.xor, ast.Div: operator.truediv,
    ast.MatMult: operator.matmul,
}
_CMPOPS = {ast.Lt: operator.lt, ast.LtE: operator.le, ast.Gt: operator.gt, ast.GtE: operator.ge}


class Interp(object):
    def __init__(self, ctx, frame):
        self.ctx = ctx
        self.f = frame

    # -- statements ----------------------------------------------------------
    def exec_block(self, stmts):
        for s in stmts:
            self.exec(s)

    def exec(self, s):
        m = getattr(self, 'x_' + type(s).__name__, None)
        if m is None:
            raise Unsupported('statement %s at line %s' % (type(s).__name__, getattr(s, 'lineno', '?')))
        return m(s)

    def x_Expr(self, s):
        self.eval(s.value)

    def x_Pass(self, s):
        pass

    def x_Global(self, s):
        self.f.globals_decl.update(s.names)

    def x_Nonlocal(self, s):
        self.f.nonlocals.update(s.names)

    def x_Import(self, s):
        for a in s.names:
            mod = importlib.import_module(a.name)
            if a.asname:
                self.f.store(a.asname, mod)
            else:
                self.f.store(a.name.split('.')[0], importlib.import_module(a.name.split('.')[0]))

    def x_ImportFrom(self, s):
        try:
            pkg = self.f.globs.get('__package__') or self.f.globs.get('__name__', '').rpartition('.')[0]
            mod = importlib.import_module('.' * s.level + (s.module or ''), pkg if s.level else None)
        except ImportError as e:
            raise PyExc(e)
        for a in s.names:
            try:
                v = getattr(mod, a.name)
            except AttributeError:
                try:
                    v = importlib.import_module(mod.__name__ + '.' + a.name)
                except ImportError as e:
                    raise PyExc(e)
            self.f.store(a.asname or a.name, v)

    def x_Return(self, s):
        raise _Return(self.eval(s.value) if s.value is not None else None)

    def x_Break(self, s):
        raise _Break()

    def x_Continue(self, s):
        raise _Continue()

    def x_Assert(self, s):
        if not truth(self.ctx, self.eval(s.test)):
            msg = self.eval(s.msg) if s.msg is not None else None
            py_raise(AssertionError(msg) if deep_concrete(msg) else SObj(AssertionError, {'args': (msg,)}))

    def x_Delete(self, s):
        for t in s.targets:
            if isinstance(t, ast.Name):
                self.f.locals.pop(t.id, None)
            elif isinstance(t, ast.Attribute):
                o = self.eval(t.value)
                if isinstance(o, SObj):
                    if t.attr not in o.attrs:
                        py_raise(AttributeError(t.attr))
                    del o.attrs[t.attr]
                else:
                    try:
                        delattr(o, t.attr)
                    except Exception as e:
                        raise PyExc(e)
            elif isinstance(t, ast.Subscript):
                o = self.eval(t.value)
                k = self.eval_index(t.slice)
                self.del_item(o, k)
            else:
                raise Unsupported('del target')

    def del_item(self, o, k):
        from . import libmodels
        if isinstance(o, SObj):
            m = static_lookup(o.cls, '__delitem__')
            if m is not None:
                call_value(self.ctx, BoundMethod(m[0], o, m[1]), [k], {})
                return
        if isinstance(o, dict):
            kk = libmodels.dict_find_key(self.ctx, o, k)
            if kk is libmodels.MISSING:
                py_raise(KeyError(k))
            del o[kk]
            return
        if isinstance(o, list):
            k = self._concretize_index(o, k)
            try:
                del o[k]
            except Exception as e:
                raise PyExc(e)
            return
        raise Unsupported('del item on %r' % type(o))

    def x_Assign(self, s):
        v = self.eval(s.value)
        for t in s.targets:
            self.assign(t, v)

    def x_AnnAssign(self, s):
        if s.value is not None:
            self.assign(s.target, self.eval(s.value))

    def x_AugAssign(self, s):
        t = s.target
        if isinstance(t, ast.Name):
            cur = self.f.lookup(t.id)
            new = self.aug(s.op, cur, self.eval(s.value))
            self.f.store(t.id, new)
        elif isinstance(t, ast.Attribute):
            o = self.eval(t.value)
            cur = get_attr(self.ctx, o, t.attr)
            new = self.aug(s.op, cur, self.eval(s.value))
            set_attr(self.ctx, o, t.attr, new)
        elif isinstance(t, ast.Subscript):
            o = self.eval(t.value)
            k = self.eval_index(t.slice)
            cur = self.get_item(o, k)
            new = self.aug(s.op, cur, self.eval(s.value))
            self.set_item(o, k, new)
        else:
            raise Unsupported('augassign target')

    def aug(self, op, cur, val):
        if isinstance(cur, list) and isinstance(op, ast.Add):
            cur.extend(self.iterate(val))
            return cur
        if isinstance(cur, MBytes) and isinstance(op, ast.Add):
            cur.content = cur.get() + (val.get() if isinstance(val, MBytes) else val)
            return cur
        if isinstance(cur, (set, dict)) and not deep_concrete(val):
            raise Unsupported('in-place set/dict op with symbolic operand')
        if isinstance(cur, (set, bytearray, dict)) and deep_concrete(val):
            iop = {ast.Add: operator.iadd, ast.BitOr: operator.ior, ast.BitAnd: operator.iand,
                   ast.Sub: operator.isub, ast.BitXor: operator.ixor}.get(type(op))
            if iop is None:
                raise Unsupported('augassign op')
            try:
                return iop(cur, val)
            except Exception as e:
                raise PyExc(e)
        return self.binop(op, cur, val)

    def assign(self, t, v):
        if isinstance(t, ast.Name):
            self.f.store(t.id, v)
        elif isinstance(t, ast.Attribute):
            set_attr(self.ctx, self.eval(t.value), t.attr, v)
        elif isinstance(t, ast.Subscript):
            o = self.eval(t.value)
            k = self.eval_index(t.slice)
            self.set_item(o, k, v)
        elif isinstance(t, (ast.Tuple, ast.List)):
            items = self.iterate(v)
            star = [i for i, e in enumerate(t.elts) if isinstance(e, ast.Starred)]
            if star:
                i = star[0]
                after = len(t.elts) - i - 1
                if len(items) < len(t.elts) - 1:
                    py_raise(ValueError('not enough values to unpack'))
                for e, x in zip(t.elts[:i], items[:i]):
                    self.assign(e, x)
                self.assign(t.elts[i].value, list(items[i:len(items) - after]))
                for e, x in zip(t.elts[i + 1:], items[len(items) - after:]):
                    self.assign(e, x)
            else:
                if len(items) != len(t.elts):
                    py_raise(ValueError('unpack: expected %d values, got %d' % (len(t.elts), len(items))))
                for e, x in zip(t.elts, items):
                    self.assign(e, x)
        else:
            raise Unsupported('assign target %s' % type(t).__name__)

    def set_item(self, o, k, v):
        from . import libmodels
        if isinstance(o, SObj):
            m = static_lookup(o.cls, '__setitem__')
            if m is not None:
                call_value(self.ctx, BoundMethod(m[0], o, m[1]), [k, v], {})
                return
            raise Unsupported('setitem on SObj')
        if isinstance(o, dict):
            kk = libmodels.dict_find_key(self.ctx, o, k)
            if kk is libmodels.MISSING:
                if is_sym(k) or isinstance(k, SObj) and not libmodels.sobj_hashable_by_identity(k):
                    # new symbolic key distinct from all present keys (established by the forks in dict_find_key)
                    o[libmodels.SymKey(k)] = v
                else:
                    o[k] = v
            else:
                o[kk] = v
            return
        if isinstance(o, list):
            if isinstance(k, slice):
                if not deep_concrete([k.start, k.stop, k.step]):
                    raise Unsupported('list slice assignment with symbolic bounds')
                o[k] = self.iterate(v)
                return
            k = self._concretize_index(o, k)
            try:
                o[k] = v
            except Exception as e:
                raise PyExc(e)
            return
        if isinstance(o, MBytes):
            raise Unsupported('bytearray item assignment')
        if deep_concrete(k) and deep_concrete(v):
            try:
                o[k] = v
            except Exception as e:
                raise PyExc(e)
            return
        raise Unsupported('setitem on %r' % type(o))

    def _concretize_index(self, seq, k):
        """Turn a symbolic int index into a concrete one by forking over the (concrete) length."""
        c = sym.concrete_int(k) if isinstance(k, (SInt, int)) else None
        if c is not None:
            return c
        if isinstance(k, SInt):
            n = len(seq)
            for i in range(-n, n):
                if self.ctx.branch(k.t == i):
                    return i
            py_raise(IndexError('index out of range'))
        if isinstance(k, slice):
            return k
        raise Unsupported('index %r' % (k,))

    def x_If(self, s):
        test = self.eval(s.test)
        if isinstance(test, SBool) and not s.orelse and self._mergeable(s.body):
            # if-conversion: a conditional that only updates local scalars with total operators is merged into
            # ite(test, new, old) instead of forking the path (keeps bit-serial loops such as CRCs to one path)
            c = z3.simplify(test.t)
            if not (z3.is_true(c) or z3.is_false(c)):
                old = {}
                names = sorted(self._assigned_names(s.body))
                for nm in names:
                    if nm not in self.f.locals:
                        old = None
                        break
                    old[nm] = self.f.locals[nm]
                if old is not None and all(isinstance(v, (Sym, int)) and not isinstance(v, bool) or isinstance(v, (SBool, bool)) for v in old.values()):
                    self.exec_block(s.body)
                    ok = True
                    merged = {}
                    for nm in names:
                        try:
                            merged[nm] = _ite_value(SBool(c), self.f.locals[nm], old[nm])
                        except Unsupported:
                            ok = False
                            break
                    if ok:
                        self.f.locals.update(merged)
                        return
                    self.f.locals.update(old)
        if truth(self.ctx, test):
            self.exec_block(s.body)
        else:
            self.exec_block(s.orelse)

    _TOTAL_OPS = (ast.BitXor, ast.BitOr, ast.BitAnd, ast.Add, ast.Sub, ast.Mult, ast.LShift)

    def _mergeable(self, body):
        def expr_ok(e):
            if isinstance(e, (ast.Name, ast.Constant)):
                return True
            if isinstance(e, ast.BinOp):
                return isinstance(e.op, self._TOTAL_OPS) and expr_ok(e.left) and expr_ok(e.right)
            return False
        for st in body:
            if isinstance(st, ast.AugAssign):
                if not (isinstance(st.target, ast.Name) and isinstance(st.op, self._TOTAL_OPS) and expr_ok(st.value)):
                    return False
            elif isinstance(st, ast.Assign):
                if not (len(st.targets) == 1 and isinstance(st.targets[0], ast.Name) and expr_ok(st.value)):
                    return False
            else:
                return False
        return True

    def _loop_ordinal(self, node):
        # ordinal of this loop among the loops of the enclosing function, in source order
        key = id(node)
        fn_loops = _LOOP_ORD.get(key)
        return fn_loops

    def x_While(self, s):
        spec = self._loop_spec(s)
        if spec is not None:
            return self._while_with_invariant(s, spec)
        n = 0
        broke = False
        while truth(self.ctx, self.eval(s.test)):
            n += 1
            if n > MAX_UNROLL:
                raise Undecided('loop at line %d of %s needs an invariant (unrolled %d times)' % (s.lineno, self.f.fname, MAX_UNROLL))
            try:
                self.exec_block(s.body)
            except _Break:
                broke = True
                break
            except _Continue:
                continue
        if not broke:
            self.exec_block(s.orelse)

    def _loop_spec(self, node):
        if not self.ctx.loop_specs:
            return None
        ordn = loop_ordinal(self.f, node)
        return self.ctx.loop_specs.get((self.f.fkey, ordn))

    def _assigned_names(self, body):
        names = set()
        for st in body:
            for n in [st] + list(_walk_local(st)):
                if isinstance(n, ast.Name) and isinstance(n.ctx, (ast.Store, ast.Del)):
                    names.add(n.id)
                elif isinstance(n, ast.Call) and isinstance(n.func, ast.Attribute) and isinstance(n.func.value, ast.Name) \
                        and n.func.attr in _MUTATING_METHODS:
                    names.add(n.func.value.id)       # object mutated in place inside the loop
                elif isinstance(n, ast.Subscript) and isinstance(n.ctx, (ast.Store, ast.Del)) and isinstance(n.value, ast.Name):
                    names.add(n.value.id)
        return names

    def _havoc(self, names, extra):
        if extra:
            extra = {(alpha_name(self.f, k) or k) if (not k.startswith('__') and k not in self.f.locals and k not in names) else k: v for k, v in extra.items()}
        for nm in sorted(names):
            if nm in (extra or {}) and not nm.startswith('__') and nm in self.f.locals and not isinstance(self.f.locals[nm], MBytes):
                self.f.locals[nm] = extra[nm](self.ctx)
                continue
            if nm in self.f.locals:
                v = self.f.locals[nm]
                if isinstance(v, MBytes):
                    v.content = self.ctx.fresh_bytes('h_' + nm, register=False)
                elif v is None or isinstance(v, (SObj, list, dict, set, tuple)) and not isinstance(v, Sym):
                    if nm in (extra or {}):
                        self.f.locals[nm] = extra[nm](self.ctx)
                    else:
                        raise Unsupported('cannot havoc loop variable %s of kind %s' % (nm, type(v).__name__))
                else:
                    self.f.locals[nm] = self.ctx.fresh_like(v, 'h_' + nm)
        for nm, mk in (extra or {}).items():
            if nm.startswith('__'):
                mk(self.ctx)          # heap havoc hook
                continue
            if nm not in names:
                cur = self.f.locals.get(nm)
                if isinstance(cur, MBytes):
                    cur.content = self.ctx.fresh_bytes('h_' + nm, register=False)
                else:
                    self.f.locals[nm] = mk(self.ctx)

    def _check_inv(self, tag, inv, view):
        res = inv(view)
        if isinstance(res, (list, tuple)):
            for i, (nm, c) in enumerate(res):
                self.ctx.check('%s/%s' % (tag, nm), c)
        else:
            self.ctx.check(tag, res)

    def _assume_inv(self, inv, view):
        res = inv(view)
        if isinstance(res, (list, tuple)):
            for nm, c in res:
                self.ctx.assume(c, silent=True)
        else:
            self.ctx.assume(res, silent=True)

    def _gen_frame(self):
        f = self.f
        while f is not None and f.yields is None:
            f = f.parent
        return f

    def _while_with_invariant(self, s, spec):
        inv, havoc, decreases = spec[:3]
        on_exit = spec[3] if len(spec) > 3 else None
        tag = '%s/loop@%d' % (self.f.fname, loop_ordinal(self.f, s))
        gf = self._gen_frame()
        ys = lambda: (gf.yields if gf is not None else None)
        self._check_inv(tag + '/inv-init', inv, LocalsView(self.f, {'_phase': 'init', '_yields': ys()}))
        self._havoc(self._assigned_names(s.body), havoc)
        if gf is not None:
            gf.yields = []       # ghost output of the generator: per-iteration view under the invariant
        self._assume_inv(inv, LocalsView(self.f, {'_phase': 'assume', '_yields': ys()}))
        if truth(self.ctx, self.eval(s.test)):
            d0 = decreases(LocalsView(self.f)) if decreases else None
            try:
                self.exec_block(s.body)
            except _Break:
                return
            except _Continue:
                pass
            self._check_inv(tag + '/inv-step', inv, LocalsView(self.f, {'_phase': 'step', '_yields': ys()}))
            if decreases:
                d1 = decreases(LocalsView(self.f))
                self.ctx.check(tag + '/decreases', sym.and_(d1 < d0, d0 >= 0))
            raise PathAbort('loop body verified')
        else:
            if on_exit is not None:
                self._check_inv(tag + '/on-exit', on_exit, LocalsView(self.f, {'_phase': 'exit', '_yields': ys()}))
            self.exec_block(s.orelse)

    def x_For(self, s):
        it = self.eval(s.iter)
        spec = self._loop_spec(s)
        if spec is not None:
            return self._for_with_invariant(s, it, spec)
        broke = False
        for x in self.iter_values(it, s):
            self.assign(s.target, x)
            try:
                self.exec_block(s.body)
            except _Break:
                broke = True
                break
            except _Continue:
                continue
        if not broke:
            self.exec_block(s.orelse)

    def _for_with_invariant(self, s, it, spec):
        inv, havoc, decreases = spec[:3]
        tag = '%s/loop@%d' % (self.f.fname, loop_ordinal(self.f, s))
        if isinstance(it, range):
            it = SymRange(it.start, it.stop, it.step)
        if isinstance(it, SymRange) and it.step != 1:
            # iterations are counted by _i: the loop variable is lo + step*_i, running while that is < hi
            st = it.step
            base = it.lo
            cnt = (it.hi - base + (st - 1)) // st
            lo, n, getter = 0, sym.int_max(cnt, 0), (lambda i: base + st * i)
        elif isinstance(it, SymRange):
            lo, n, getter = it.lo, it.hi, (lambda i: i)
        elif isinstance(it, (SBytes, SSeq, SStr)):
            lo, n, getter = 0, it.length(), (lambda i: it[i])
        elif isinstance(it, MBytes):
            snap = it.get()
            lo, n, getter = 0, snap.length(), (lambda i: snap[i])
        else:
            raise Unsupported('for-loop invariant over %s' % type(it).__name__)
        gf = self._gen_frame()
        ys = lambda: (gf.yields if gf is not None else None)
        on_exit = spec[3] if len(spec) > 3 else None
        self._check_inv(tag + '/inv-init', inv, LocalsView(self.f, {'_i': lo, '_n': n, '_phase': 'init', '_yields': ys()}))
        names = self._assigned_names(s.body) | {n_.id for n_ in ast.walk(s.target) if isinstance(n_, ast.Name)}
        self._havoc(names, havoc)
        if gf is not None:
            gf.yields = []
        i = self.ctx.fresh_int('iter', register=False)
        self.ctx.assume(sym.and_(i >= lo, sym.or_(i <= n, i <= lo)), silent=True)
        self._assume_inv(inv, LocalsView(self.f, {'_i': i, '_n': n, '_phase': 'assume', '_yields': ys()}))
        if truth(self.ctx, i < n):
            self.assign(s.target, getter(i))
            try:
                self.exec_block(s.body)
            except _Break:
                return
            except _Continue:
                pass
            self._check_inv(tag + '/inv-step', inv, LocalsView(self.f, {'_i': i + 1, '_n': n, '_phase': 'step', '_yields': ys()}))
            raise PathAbort('loop body verified')
        else:
            if on_exit is not None:
                self._check_inv(tag + '/on-exit', on_exit, LocalsView(self.f, {'_i': i, '_n': n, '_phase': 'exit', '_yields': ys()}))
            self.exec_block(s.orelse)

    def iter_values(self, it, node=None):
        """Generator over the items of an iterable, forking on symbolic lengths."""
        ctx = self.ctx
        if isinstance(it, list):
            i = 0
            while i < len(it):
                yield it[i]
                i += 1
            return
        if isinstance(it, (tuple, str, bytes, bytearray, range, frozenset)):
            for x in it:
                yield x
            return
        if isinstance(it, dict):
            from . import libmodels
            for x in list(it):
                yield libmodels.unwrap_key(x)
            return
        if isinstance(it, set):
            for x in list(it):
                yield x
            return
        if isinstance(it, GenList):
            while True:
                try:
                    yield next(it)
                except StopIteration:
                    return
        if isinstance(it, SymRange):
            i = it.lo
            n = 0
            while truth(ctx, i < it.hi):
                n += 1
                if n > MAX_UNROLL:
                    raise Undecided('range loop in %s needs an invariant' % self.f.fname)
                yield i
                i = i + it.step
            return
        if isinstance(it, MBytes):
            it = it.get()
        if isinstance(it, (SBytes, SSeq, SStr)):
            i = 0
            ln = it.length()
            while truth(ctx, ln > i):
                if i >= MAX_UNROLL:
                    raise Undecided('loop over symbolic sequence in %s needs an invariant' % self.f.fname)
                yield it[i]
                i += 1
            return
        if isinstance(it, SObj):
            m = static_lookup(it.cls, '__iter__')
            if m is not None:
                r = call_value(ctx, BoundMethod(m[0], it, m[1]), [], {})
                nx = static_lookup(r.cls, '__next__') if isinstance(r, SObj) else None
                if nx is not None:
                    # iterator protocol on an interpreted object: call __next__ until StopIteration
                    n = 0
                    while True:
                        try:
                            x = call_value(ctx, BoundMethod(nx[0], r, nx[1]), [], {})
                        except PyExc as e:
                            if issubclass(exc_class(e.value), StopIteration):
                                return
                            raise
                        n += 1
                        if n > 4 * MAX_UNROLL:
                            raise Undecided('iterator object in %s yields too many values' % self.f.fname)
                        yield x
                for x in self.iter_values(r):
                    yield x
                return
            raise Unsupported('iteration over %r' % (it,))
        if is_sym(it):
            raise Unsupported('iteration over %r' % (it,))
        try:
            iterator = iter(it)
        except Exception as e:
            raise PyExc(e)
        while True:
            try:
                x = next(iterator)
            except StopIteration:
                return
            except _ENGINE_EXC:
                raise
            except Exception as e:
                raise PyExc(e)
            yield x

    def iterate(self, it):
        return list(self.iter_values(it))

    def x_With(self, s):
        exits = []
        for item in s.items:
            cm = self.eval(item.context_expr)
            val = self.enter_cm(cm)
            exits.append(cm)
            if item.optional_vars is not None:
                self.assign(item.optional_vars, val)
        try:
            self.exec_block(s.body)
        except PyExc as e:
            suppressed = False
            for cm in reversed(exits):
                if self.exit_cm(cm, e.value):
                    suppressed = True
                    break
            if not suppressed:
                raise
            return
        except (_Return, _Break, _Continue):
            for cm in reversed(exits):
                self.exit_cm(cm, None)
            raise
        for cm in reversed(exits):
            self.exit_cm(cm, None)

    def e_Await(self, e):
        v = self.eval(e.value)
        self.ctx.ghost['await_points'] = self.ctx.ghost.get('await_points', 0) + 1
        if isinstance(v, CoroutineModel):
            return v.run()
        aw = getattr(v, '__pyvc_await__', None)
        if aw is not None:
            return aw()
        import inspect
        if inspect.isawaitable(v):
            # a real library awaitable (asyncio.sleep(0), a Future): a suspension point whose result is not modelled
            if inspect.iscoroutine(v):
                v.close()
            return None
        py_raise(TypeError("object %s can't be used in 'await' expression" % type(v).__name__))

    def x_AsyncWith(self, s):
        """`async with cm:` - __aenter__/__aexit__ of a stub context manager (each an await point); the body runs without other suspension points unless it awaits"""
        cms = []
        for item in s.items:
            cm = self.eval(item.context_expr)
            ae, ax = getattr(cm, '__pyvc_aenter__', None), getattr(cm, '__pyvc_aexit__', None)
            if ae is None or ax is None:
                py_raise(AttributeError('__aenter__'))
            self.ctx.ghost['await_points'] = self.ctx.ghost.get('await_points', 0) + 1
            val = ae()
            if item.optional_vars is not None:
                self.assign(item.optional_vars, val)
            cms.append(ax)
        try:
            self.exec_block(s.body)
        except PyExc as e:
            for ax in reversed(cms):
                ax(e.value)
            raise
        except (_Return, _Break, _Continue):
            for ax in reversed(cms):
                ax(None)
            raise
        for ax in reversed(cms):
            self.ctx.ghost['await_points'] = self.ctx.ghost.get('await_points', 0) + 1
            ax(None)

    def enter_cm(self, cm):
        from . import libmodels
        if isinstance(cm, libmodels.LockModel):
            return cm.enter(self.ctx)
        if isinstance(cm, SObj):
            m = static_lookup(cm.cls, '__enter__')
            if m is None:
                py_raise(AttributeError('__enter__'))
            return call_value(self.ctx, BoundMethod(m[0], cm, m[1]), [], {})
        try:
            return cm.__enter__()
        except Exception as e:
            raise PyExc(e)

    def exit_cm(self, cm, exc):
        from . import libmodels
        if isinstance(cm, libmodels.LockModel):
            return cm.exit(self.ctx, exc)
        a = (None, None, None) if exc is None else (exc_class(exc), exc, None)
        if isinstance(cm, SObj):
            m = static_lookup(cm.cls, '__exit__')
            return truth(self.ctx, call_value(self.ctx, BoundMethod(m[0], cm, m[1]), list(a), {}))
        try:
            if exc is not None and not isinstance(exc, BaseException):
                return bool(cm.__exit__(None, None, None)) and False
            return bool(cm.__exit__(*a))
        except Exception as e:
            raise PyExc(e)

    def x_Raise(self, s):
        if s.exc is None:
            if self.f.cur_exc is None:
                py_raise(RuntimeError('No active exception to reraise'))
            raise PyExc(self.f.cur_exc)
        v = self.eval(s.exc)
        if isinstance(v, type) and issubclass(v, BaseException):
            v = make_exception(self.ctx, v, [], {})
        raise PyExc(v)

    def x_Try(self, s):
        try:
            try:
                self.exec_block(s.body)
            except PyExc as e:
                handled = False
                for h in s.handlers:
                    if self.exc_matches(e.value, h):
                        handled = True
                        if h.name:
                            self.f.store(h.name, e.value)
                        prev = self.f.cur_exc
                        self.f.cur_exc = e.value
                        try:
                            self.exec_block(h.body)
                        finally:
                            self.f.cur_exc = prev
                        break
                if not handled:
                    raise
            else:
                self.exec_block(s.orelse)
        except (PyExc, _Return, _Break, _Continue):
            if s.finalbody:
                self.exec_block(s.finalbody)
            raise
        else:
            if s.finalbody:
                self.exec_block(s.finalbody)

    def exc_matches(self, value, h):
        if h.type is None:
            return True
        t = self.eval(h.type)
        classes = t if isinstance(t, tuple) else (t,)
        ec = exc_class(value)
        for c in classes:
            if isinstance(c, type) and issubclass(ec, c):
                return True
        return False

    def x_FunctionDef(self, s):
        fn = InterpFunction(s, self.f, s.name, defcls=self.f.defcls)
        fn.defaults = [self.eval(d) for d in s.args.defaults]
        fn.kw_defaults = [self.eval(d) if d is not None else _NODEFAULT for d in s.args.kw_defaults]
        v = fn
        for d in reversed(s.decorator_list):
            dv = self.eval(d)
            v = call_value(self.ctx, dv, [v], {})
        self.f.store(s.name, v)

    # -- expressions -----------------------------------------------------------
    def eval(self, e):
        hooks = self.ctx.run.expr_hooks
        if hooks and isinstance(e, ast.Call):
            hs = hooks.get(self.f.fkey)
            if hs:
                txt = ast.unparse(e)
                for pat, handler in hs:
                    mm = pat.fullmatch(txt)
                    if mm:
                        return handler(self, e, mm)
        m = getattr(self, 'e_' + type(e).__name__, None)
        if m is None:
            raise Unsupported('expression %s at line %s' % (type(e).__name__, getattr(e, 'lineno', '?')))
        return m(e)

    def e_Constant(self, e):
        return e.value

    def e_Name(self, e):
        return self.f.lookup(e.id)

    def e_Tuple(self, e):
        return tuple(self._elts(e.elts))

    def e_List(self, e):
        return list(self._elts(e.elts))

    def _elts(self, elts):
        out = []
        for x in elts:
            if isinstance(x, ast.Starred):
                out.extend(self.iterate(self.eval(x.value)))
            else:
                out.append(self.eval(x))
        return out

    def e_Set(self, e):
        items = self._elts(e.elts)
        if not deep_concrete(items):
            raise Unsupported('set display with symbolic elements')
        return set(items)

    def e_Dict(self, e):
        from . import libmodels
        d = {}
        for k, v in zip(e.keys, e.values):
            if k is None:
                src = self.eval(v)
                for kk in list(src):
                    d[kk] = src[kk]
                continue
            kv = self.eval(k)
            vv = self.eval(v)
            if is_sym(kv):
                kk = libmodels.dict_find_key(self.ctx, d, kv)
                d[libmodels.SymKey(kv) if kk is libmodels.MISSING else kk] = vv
            else:
                d[kv] = vv
        return d

    def e_IfExp(self, e):
        return self.eval(e.body) if truth(self.ctx, self.eval(e.test)) else self.eval(e.orelse)

    def e_BoolOp(self, e):
        if isinstance(e.op, ast.And):
            v = True
            for x in e.values:
                v = self.eval(x)
                if not truth(self.ctx, v):
                    return v
            return v
        v = False
        for x in e.values:
            v = self.eval(x)
            if truth(self.ctx, v):
                return v
        return v

    def e_UnaryOp(self, e):
        v = self.eval(e.operand)
        if isinstance(e.op, ast.Not):
            return not truth(self.ctx, v)
        try:
            if isinstance(e.op, ast.USub):
                return -v
            if isinstance(e.op, ast.UAdd):
                return +v
            if isinstance(e.op, ast.Invert):
                return ~v if not isinstance(v, SBool) else ~SInt(sym.as_int_term(v))
        except _ENGINE_EXC:
            raise
        except Exception as ex:
            raise PyExc(ex)
        raise Unsupported('unary op')

    def e_BinOp(self, e):
        return self.binop(e.op, self.eval(e.left), self.eval(e.right))

    def binop(self, op, a, b):
        from . import libmodels
        if isinstance(a, MBytes):
            a = a.get()
        if isinstance(b, MBytes):
            b = b.get()
        if isinstance(op, ast.Mod) and isinstance(a, (str, bytes, SStr)):
            return libmodels.format_percent(self.ctx, a, b)
        if isinstance(a, SObj) or isinstance(b, SObj):
            return self._sobj_binop(op, a, b)
        if (isinstance(a, Sym) or isinstance(b, Sym)):
            r = libmodels.sym_binop(self.ctx, op, a, b)
            if r is not NotImplemented:
                return r
        f = _BINOPS[type(op)]
        if isinstance(op, ast.Pow) and isinstance(a, int) and isinstance(b, int) and not isinstance(a, bool) and b > 100000:
            raise Unsupported('huge power')
        try:
            return f(a, b)
        except _ENGINE_EXC:
            raise
        except Exception as ex:
            raise PyExc(ex)

    _DUNDER = {ast.Add: ('__add__', '__radd__'), ast.Sub: ('__sub__', '__rsub__'), ast.Mult: ('__mul__', '__rmul__'),
               ast.BitOr: ('__or__', '__ror__'), ast.BitAnd: ('__and__', '__rand__'), ast.BitXor: ('__xor__', '__rxor__'),
               ast.FloorDiv: ('__floordiv__', '__rfloordiv__'), ast.Div: ('__truediv__', '__rtruediv__'),
               ast.Mod: ('__mod__', '__rmod__')}

    def _sobj_binop(self, op, a, b):
        names = self._DUNDER.get(type(op))
        if names is None:
            raise Unsupported('binop on objects')
        if isinstance(a, SObj):
            m = static_lookup(a.cls, names[0])
            if m is not None and isinstance(m[0], types.FunctionType):
                r = call_value(self.ctx, BoundMethod(m[0], a, m[1]), [b], {})
                if r is not NotImplemented:
                    return r
        if isinstance(b, SObj):
            m = static_lookup(b.cls, names[1])
            if m is not None and isinstance(m[0], types.FunctionType):
                r = call_value(self.ctx, BoundMethod(m[0], b, m[1]), [a], {})
                if r is not NotImplemented:
                    return r
        py_raise(TypeError('unsupported operand type(s)'))

    def e_Compare(self, e):
        left = self.eval(e.left)
        result = True
        for op, rn in zip(e.ops, e.comparators):
            right = self.eval(rn)
            r = self.compare(op, left, right)
            if len(e.ops) == 1:
                return r
            if not truth(self.ctx, r):
                return r
            result = r
            left = right
        return result

    def compare(self, op, a, b):
        from . import libmodels
        ctx = self.ctx
        if isinstance(op, ast.Is):
            return self._is(a, b)
        if isinstance(op, ast.IsNot):
            return not self._is(a, b)
        if isinstance(op, ast.Eq):
            return py_eq(ctx, a, b)
        if isinstance(op, ast.NotEq):
            if isinstance(a, SObj):
                m = static_lookup(a.cls, '__ne__')
                if m is not None and is_repo_function(m[0]):
                    return call_value(ctx, BoundMethod(m[0], a, m[1]), [b], {})
            r = py_eq(ctx, a, b)
            return (not r) if isinstance(r, bool) else sym.not_(r)
        if isinstance(op, ast.In):
            return libmodels.contains(ctx, b, a)
        if isinstance(op, ast.NotIn):
            r = libmodels.contains(ctx, b, a)
            return (not r) if isinstance(r, bool) else sym.not_(r)
        f = _CMPOPS[type(op)]
        if isinstance(a, MBytes):
            a = a.get()
        if isinstance(b, MBytes):
            b = b.get()
        if isinstance(a, SObj) or isinstance(b, SObj):
            names = {ast.Lt: ('__lt__', '__gt__'), ast.LtE: ('__le__', '__ge__'),
                     ast.Gt: ('__gt__', '__lt__'), ast.GtE: ('__ge__', '__le__')}[type(op)]
            if isinstance(a, SObj):
                m = static_lookup(a.cls, names[0])
                if m is not None and isinstance(m[0], types.FunctionType):
                    r = call_value(ctx, BoundMethod(m[0], a, m[1]), [b], {})
                    if r is not NotImplemented:
                        return r
            if isinstance(b, SObj):
                m = static_lookup(b.cls, names[1])
                if m is not None and isinstance(m[0], types.FunctionType):
                    r = call_value(ctx, BoundMethod(m[0], b, m[1]), [a], {})
                    if r is not NotImplemented:
                        return r
            py_raise(TypeError('ordering not supported between instances'))
        if isinstance(a, (list, tuple)) and isinstance(b, (list, tuple)) and not (deep_concrete(a) and deep_concrete(b)):
            return libmodels.seq_compare(ctx, op, a, b)
        try:
            return f(a, b)
        except _ENGINE_EXC:
            raise
        except Exception as ex:
            raise PyExc(ex)

    def _is(self, a, b):
        if isinstance(a, Sym) or isinstance(b, Sym):
            if a is b:
                return True
            if isinstance(a, Sym) and isinstance(b, Sym):
                if type(a) is type(b) and a.t.eq(b.t):
                    return True
                if isinstance(a, SU) and isinstance(b, SU):
                    # identity of opaque objects == equality of their symbolic ids
                    return truth(self.ctx, a == b)
                if isinstance(a, SBool) and isinstance(b, SBool):
                    return truth(self.ctx, a == b)
                raise Unsupported('`is` between symbolic values')
            other = b if isinstance(a, Sym) else a
            s = a if isinstance(a, Sym) else b
            if other is None or isinstance(other, (type, types.FunctionType, types.ModuleType, SObj)):
                return False
            if isinstance(other, bool) and isinstance(s, SBool):
                return truth(self.ctx, s == other)
            if isinstance(other, bool):
                return False
            if isinstance(other, object) and type(other) is object:
                return False     # sentinel objects
            raise Unsupported('`is` between symbolic value and %r' % (other,))
        return a is b

    def e_Attribute(self, e):
        return get_attr(self.ctx, self.eval(e.value), e.attr)

    def eval_index(self, sl):
        if isinstance(sl, ast.Slice):
            return slice(self.eval(sl.lower) if sl.lower is not None else None,
                         self.eval(sl.upper) if sl.upper is not None else None,
                         self.eval(sl.step) if sl.step is not None else None)
        if isinstance(sl, ast.Tuple):
            return tuple(self.eval_index(x) for x in sl.elts)
        return self.eval(sl)

    def e_Subscript(self, e):
        return self.get_item(self.eval(e.value), self.eval_index(e.slice))

    def get_item(self, o, k):
        from . import libmodels
        ctx = self.ctx
        if isinstance(o, MBytes):
            o = o.get()
        if isinstance(o, Sym):
            if isinstance(k, slice) and isinstance(o, _SEQS):
                return o[k]
            return o[k]
        if isinstance(o, SObj):
            m = static_lookup(o.cls, '__getitem__')
            if m is not None and isinstance(m[0], types.FunctionType):
                return call_value(ctx, BoundMethod(m[0], o, m[1]), [k], {})
            if issubclass(o.cls, tuple) and hasattr(o.cls, '_fields'):
                return o.attrs[o.cls._fields[k]]
            raise Unsupported('getitem on %r' % (o,))
        if isinstance(o, dict):
            kk = libmodels.dict_find_key(ctx, o, k)
            if kk is libmodels.MISSING:
                missing = getattr(type(o), '__missing__', None)
                if missing is not None and deep_concrete(k):
                    try:
                        return o[k]
                    except Exception as ex:
                        raise PyExc(ex)
                py_raise(KeyError(k if deep_concrete(k) else 'symbolic key'))
            return o[kk]
        if isinstance(o, (list, tuple)):
            if isinstance(k, slice):
                if deep_concrete([k.start, k.stop, k.step]):
                    return o[k]
                return libmodels.list_slice_sym(ctx, o, k)
            k = self._concretize_index(o, k)
            try:
                return o[k]
            except Exception as ex:
                raise PyExc(ex)
        if isinstance(o, (bytes, str)) and not deep_concrete(k):
            return lift(o)[k]
        if deep_concrete(k):
            try:
                return o[k]
            except _ENGINE_EXC:
                raise
            except Exception as ex:
                raise PyExc(ex)
        raise Unsupported('subscript of %r with symbolic key' % type(o))

    def e_Slice(self, e):
        return self.eval_index(e)

    def e_Call(self, e):
        fn = self.eval(e.func)
        args = []
        for a in e.args:
            if isinstance(a, ast.Starred):
                args.extend(self.iterate(self.eval(a.value)))
            else:
                args.append(self.eval(a))
        kwargs = {}
        for k in e.keywords:
            if k.arg is None:
                d = self.eval(k.value)
                if not isinstance(d, dict):
                    raise Unsupported('** of non-dict')
                kwargs.update(d)
            else:
                kwargs[k.arg] = self.eval(k.value)
        if fn is builtins.super and not args:
            if self.f.defcls is None:
                raise Unsupported('zero-arg super() without defining class')
            first = self._first_arg()
            return SuperProxy(self.f.defcls, first)
        if fn is builtins.super and len(args) == 2:
            return SuperProxy(args[0], args[1])
        if fn is builtins.locals:
            return dict(self.f.locals)
        return call_value(self.ctx, fn, args, kwargs)

    def _first_arg(self):
        f = self.f
        while f is not None:
            for k, v in f.locals.items():
                return v
            f = f.parent
        return None

    def e_Lambda(self, e):
        fn = InterpFunction(e, self.f, '<lambda>', defcls=self.f.defcls)
        fn.defaults = [self.eval(d) for d in e.args.defaults]
        fn.kw_defaults = [self.eval(d) if d is not None else _NODEFAULT for d in e.args.kw_defaults]
        return fn

    def _comp(self, generators, emit):
        saved = dict(self.f.locals)
        # comprehensions have their own scope; we emulate by restoring names afterwards

        def rec(i):
            if i == len(generators):
                emit()
                return
            g = generators[i]
            for x in self.iter_values(self.eval(g.iter)):
                self.assign(g.target, x)
                if all(truth(self.ctx, self.eval(c)) for c in g.ifs):
                    rec(i + 1)
        try:
            rec(0)
        finally:
            targets = set()
            for g in generators:
                for n in ast.walk(g.target):
                    if isinstance(n, ast.Name):
                        targets.add(n.id)
            for t in targets:
                if t in saved:
                    self.f.locals[t] = saved[t]
                else:
                    self.f.locals.pop(t, None)

    def e_ListComp(self, e):
        out = []
        self._comp(e.generators, lambda: out.append(self.eval(e.elt)))
        return out

    def e_GeneratorExp(self, e):
        out = []
        self._comp(e.generators, lambda: out.append(self.eval(e.elt)))
        return GenList(out)

    def e_SetComp(self, e):
        out = []
        self._comp(e.generators, lambda: out.append(self.eval(e.elt)))
        if not deep_concrete(out):
            raise Unsupported('set comprehension with symbolic elements')
        return set(out)

    def e_DictComp(self, e):
        out = {}

        def emit():
            k = self.eval(e.key)
            v = self.eval(e.value)
            self.set_item(out, k, v)
        self._comp(e.generators, emit)
        return out

    def e_JoinedStr(self, e):
        from . import libmodels
        parts = []
        for v in e.values:
            if isinstance(v, ast.Constant):
                parts.append(v.value)
            else:
                x = self.eval(v.value)
                if not deep_concrete(x) or v.format_spec is not None and not isinstance(x, (int, str, float)):
                    return libmodels.opaque_str(self.ctx)
                conv = {-1: format, ord('s'): lambda a, f: format(str(a), f), ord('r'): lambda a, f: format(repr(a), f),
                        ord('a'): lambda a, f: format(ascii(a), f)}[v.conversion]
                spec = self.eval(v.format_spec) if v.format_spec is not None else ''
                try:
                    parts.append(conv(x, spec))
                except Exception as ex:
                    raise PyExc(ex)
        return ''.join(parts)

    def e_Yield(self, e):
        v = self.eval(e.value) if e.value is not None else None
        f = self.f
        while f is not None and f.yields is None:
            f = f.parent
        if f is None:
            raise Unsupported('yield outside generator')
        f.yields.append(v)
        if len(f.yields) > 4 * MAX_UNROLL:
            raise Undecided('generator yields too many items (unbounded?)')
        return None

    def e_YieldFrom(self, e):
        for x in self.iter_values(self.eval(e.value)):
            f = self.f
            while f is not None and f.yields is None:
                f = f.parent
            f.yields.append(x)
        return None

    def e_Starred(self, e):
        raise Unsupported('starred expression')

    def e_NamedExpr(self, e):
        v = self.eval(e.value)
        self.assign(e.target, v)
        return v


def _ite_value(c, a, b):
    if isinstance(a, sym.SLow) or isinstance(b, sym.SLow):
        W = (a if isinstance(a, sym.SLow) else b).t.size()
        x, y = sym.SLow.of(a, W), sym.SLow.of(b, W)
        ub = max(x.ub, y.ub) if (x.ub is not None and y.ub is not None) else None
        return sym.SLow(z3.If(c.t, x.t, y.t), ub)
    return sym.ite(c, a, b)


_SEQS = (SBytes, SStr, SSeq)
_MUTATING_METHODS = {'append', 'extend', 'add', 'pop', 'remove', 'clear', 'update', 'insert', 'popleft', 'discard',
                     'appendleft', 'setdefault', 'popitem', 'sort', 'reverse', 'write', 'seek', 'read'}
_LOOP_ORD = {}


class SymRange(object):
    def __init__(self, lo, hi, step=1):
        self.lo = lo
        self.hi = hi
        self.step = step


_loop_index_cache = {}


def loop_ordinal(frame, node):
    """Ordinal (0-based, source order) of `node` among the loops of the function it belongs to."""
    key = frame.fkey
    ent = _loop_index_cache.get(id(node))
    if ent is not None:
        return ent
    # find the enclosing function of this node lazily: search the cached files
    for path, (src, tree, index) in _file_cache.items():
        for lst in index.values():
            for fnode in lst:
                loops = [n for n in _walk_local(fnode) if isinstance(n, (ast.For, ast.While))]
                if any(n is node for n in loops):
                    loops.sort(key=lambda n: (n.lineno, n.col_offset))
                    for i, n in enumerate(loops):
                        _loop_index_cache[id(n)] = i
                    return _loop_index_cache[id(node)]
    return -1
