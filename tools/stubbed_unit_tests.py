#!/venv/bin/python
"""Runs the upstream unit tests that the pinned suite cannot collect on Python 3.12 (they import cassandra.cluster, which needs
asyncore/libev) with a stub cassandra.io.libevreactor module.  Not part of the baseline; used as an extra regression net for
`fix:` commits.  Run with cwd=/repo:  /venv/bin/python /verif/tools/stubbed_unit_tests.py [pytest args]"""
import os
import sys
import types
sys.path.insert(0, os.getcwd())
from cassandra.connection import Connection
m = types.ModuleType('cassandra.io.libevreactor')
m.LibevConnection = type('LibevConnection', (Connection,), {})
sys.modules['cassandra.io.libevreactor'] = m
import pytest
FILES = ['test_response_future.py', 'test_resultset.py', 'test_concurrent.py', 'test_cluster.py', 'test_control_connection.py',
         'test_host_connection_pool.py', 'test_connection.py', 'test_policies.py', 'test_protocol.py', 'test_query.py', 'test_parameter_binding.py',
         'test_metadata.py', 'test_types.py', 'test_row_factories.py', 'test_exception.py', 'test_auth.py', 'test_endpoints.py']
sys.exit(pytest.main(['-q', '-p', 'no:cacheprovider'] + ['tests/unit/' + f for f in FILES] + sys.argv[1:]))
