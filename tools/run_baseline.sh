#!/bin/sh
# runs the pinned baseline suite on /repo and prints the summary line (expected: 350 passed; 1 failed = test_use_default_tempdir needs network)
cd /repo && /venv/bin/python -m pytest -q -p no:cacheprovider --timeout=900 --continue-on-collection-errors tests/unit 2>&1 | tail -3
