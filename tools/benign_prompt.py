#!/usr/bin/env python3
"""benign_prompt.py <prop> : print the brief for a sub-agent that makes a BEHAVIOUR-PRESERVING change (a refactoring a maintainer might do) in the code a
property depends on, and create its scratch worktree /tmp/bn-<prop>.  The checks must stay quiet on such a change (no false alarm)."""
import json, os, subprocess, sys
HERE = os.path.dirname(os.path.dirname(os.path.abspath(__file__)))
pid = sys.argv[1]
p = [json.loads(l) for l in open(os.path.join(HERE, 'properties.jsonl')) if json.loads(l)['id'] == pid][0]
wt = '/tmp/bn-%s' % pid
if not os.path.isdir(wt):
    subprocess.check_call(['git', '-C', '/repo', 'worktree', 'add', '-q', '--detach', wt, 'HEAD'])
mech = '; '.join('%s (%s)' % (m['name'], m['where']) for m in p['anchors'].get('mechanism', []))
print('''You are helping test a verification tool for false alarms by producing ONE behaviour-preserving change ("harmless refactoring") in the DataStax Python driver for Cassandra.

Work ONLY inside the git worktree {wt} (python: /venv/bin/python, run with cwd={wt} and PYTHONPATH={wt}). Do not touch /repo or /verif, do not read anything under /verif. No network.

The property that must REMAIN TRUE: "{title}: {stmt}" (Code: {files}; {mech}.)

Make a source change under {wt}/cassandra/ INSIDE the functions named above (the more of their statements you touch the better) of the kind a maintainer does without intending any change of behaviour, for example: rename local variables, reorder statements that do not depend on each other, replace a loop by an equivalent comprehension or the other way round, extract a few lines into a private helper or inline one, flip an if/else with a negated condition, replace `x is not None and ...` chains by early returns, add debug logging, add comments/type hints, hoist an invariant expression out of a loop, use a local alias for an attribute read several times (only where no other thread or callback can change it in between). Combine two or three of these. The observable behaviour - return values, exceptions and their types, order of side effects, bytes written, calls made to other objects and their order, locking - must be EXACTLY the same for every input and every interleaving; do not fix bugs, do not change defaults, do not change what happens on odd inputs. The unit suite must be unchanged: `cd {wt} && /venv/bin/python -m pytest -q -p no:cacheprovider --timeout=900 --continue-on-collection-errors tests/unit 2>&1 | tail -3` must say "1 failed, 350 passed, 53 skipped ... 14 errors".

Deliver in {wt}: (1) the change, applied and uncommitted; (2) NOTE.txt - what you changed and, statement by statement, why behaviour is preserved (be honest about anything you are not sure of); (3) check.py - a standalone script that drives the real changed functions on a handful of inputs and prints OK / exits 0 (a smoke test that the refactored code still works).

Report in under 100 words: functions changed, kinds of refactoring applied.'''.format(
    wt=wt, title=p['title'], stmt=p['statement'], files=', '.join(p['anchors']['files']), mech=mech))
