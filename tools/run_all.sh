#!/bin/sh
# run_all.sh [tier] : run every claimed property's check, print one summary line each
T=${1:-quick}
for p in $(python3 -c "import json;print(' '.join(c['property_id'] for c in json.load(open('/verif/MANIFEST.json'))['checks']))" 2>/dev/null || ls /verif/evidence | sed 's/.json//'); do
  /verif/check $p --tier $T 2>&1 | grep -E "^(HELD|VIOLATION|UNDECIDED|CHECKER|KNOWN)" | cut -c1-160 | sed "s/^/[$p] /"
done
