#!/bin/sh
# seed_sweep.sh [seeds...] : validation protocol of DESIGN.md 2.16.
# Runs every registered check (quick tier) once per seed, all seeds concurrently (so every check competes with the
# other runs for the cores), evidence and replays redirected to a scratch directory.  Prints one line per check and
# seed that did NOT exit 0, and a count.  Exit 0 iff every run exited 0.
HERE="$(cd "$(dirname "$0")/.." && pwd)"
SEEDS="${*:-0 1 4 5}"
S=$(mktemp -d "${VERIF_SCRATCH:-/dev/shm}/seedsweep_XXXXXX")
PROPS=$(python3 -c "import json,sys;print(' '.join(c['property_id'] for c in json.load(open(sys.argv[1]))['checks']))" "$HERE/MANIFEST.json")
for s in $SEEDS; do   # TIER=thorough for the thorough commands
  (
    for p in $PROPS; do
      t0=$(date +%s)
      [ -n "$VARY_HASH" ] && export PYTHONHASHSEED=$(( s * 7 + VARY_HASH ))   # string hashing differs between restores: verdicts must not depend on it
      VERIF_OUT="$S/$s" VERIF_SEED=$s "$HERE/check" $p --tier ${TIER:-quick} -v > "$S/$s.$p.log" 2>&1
      echo "$p seed=$s rc=$? $(( $(date +%s) - t0 ))s" >> "$S/$s.summary"
    done
  ) &
done
wait
cat "$S"/*.summary | grep -v "rc=0 " | while read l; do
  echo "NOT-QUIET $l"; p=${l%% *}; s=${l#*seed=}; s=${s%% *}; grep -E "^(VIOLATION|UNDECIDED|CHECKER)" "$S/$s.$p.log" | head -3
done
N=$(cat "$S"/*.summary | wc -l); BAD=$(cat "$S"/*.summary | grep -vc "rc=0 ")
# fallback use and slow obligations are worth a look even when everything is quiet
grep -h '"cvc5"\|"z3-reseeded"' "$S"/*/evidence/*.json 2>/dev/null | sort | uniq -c | sed 's/^/fallback-backend-count /'
echo "seed sweep: $N runs, $BAD not quiet (seeds: $SEEDS)"
[ -n "$KEEP" ] && echo "logs kept in $S" || rm -rf "$S"
[ "$BAD" = 0 ]
