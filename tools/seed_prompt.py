#!/usr/bin/env python3
"""seed_prompt.py <prop> : print the brief for a bug-seeding sub-agent (property text and anchors only, plus the functions earlier seeds already changed,
so that a new seed differs) and create its scratch worktree /tmp/wt-<prop>."""
import glob, json, os, re, subprocess, sys
HERE = os.path.dirname(os.path.dirname(os.path.abspath(__file__)))
pid = sys.argv[1]
P = [json.loads(l) for l in open(os.path.join(HERE, 'properties.jsonl'))]
p = [x for x in P if x['id'] == pid][0]
wt = '/tmp/wt-%s' % pid
if not os.path.isdir(wt):
    subprocess.check_call(['git', '-C', '/repo', 'worktree', 'add', '-q', '--detach', wt, 'HEAD'])
done = set()


def _enclosing(path, line):
    """qualified name of the function/class of /repo's file that contains `line` (hunk positions are those of the tree the seed was made on: close enough)"""
    import ast
    try:
        tree = ast.parse(open(os.path.join('/repo', path)).read())
    except (OSError, SyntaxError):
        return None
    best = None

    def walk(node, prefix):
        nonlocal best
        for ch in ast.iter_child_nodes(node):
            if isinstance(ch, (ast.FunctionDef, ast.AsyncFunctionDef, ast.ClassDef)):
                if ch.lineno <= line <= (ch.end_lineno or ch.lineno):
                    best = prefix + ch.name
                    walk(ch, best + '.')
    walk(tree, '')
    return best


for f in glob.glob(os.path.join(HERE, 'seeded', pid + '-*', 'patch.diff')):
    cur = None
    for ln in open(f):
        m = re.match(r'^\+\+\+ b/(\S+)', ln)
        if m:
            cur = m.group(1)
        m = re.match(r'^@@ -(\d+),?(\d*) ', ln)
        if m and cur:
            q = _enclosing(cur, int(m.group(1)) + 3)
            if q:
                done.add(q)
mech = '; '.join('%s (%s)' % (m['name'], m['where']) for m in p['anchors'].get('mechanism', []))
print('''You are helping test a verification tool by producing ONE realistic regression ("seeded bug") in the DataStax Python driver for Cassandra.

Work ONLY inside the git worktree {wt} (python: /venv/bin/python, run with cwd={wt} and PYTHONPATH={wt}). Do not touch /repo or /verif, do not read anything under /verif. No network.

Property to break: "{title}: {stmt}" (quantified over: {q}. Code: {files}; {mech}.)

Make a small source change under {wt}/cassandra/ that BREAKS the property, looks like a plausible maintainer mistake (a refactoring slip, an off-by-one, a dropped branch, a wrong default, a reordered pair of statements), still imports, and leaves the unit suite unchanged: `cd {wt} && /venv/bin/python -m pytest -q -p no:cacheprovider --timeout=900 --continue-on-collection-errors tests/unit 2>&1 | tail -3` must say "1 failed, 350 passed, 53 skipped ... 14 errors" before and after. It should need an unusual input, configuration, interleaving or history to manifest, not break every use.{avoid}

Environment notes: on this Python (3.12) `cassandra.cluster` and `cassandra.connection` import only if a connection class is available - asyncore is gone and libev is not compiled, so a demo that needs them puts a stub module named `asyncore` (with a `dispatcher` class) into sys.modules first, or uses `cassandra.io.asyncioreactor`. Use fakes/mocks for sockets and hosts; there is no Cassandra server.

Deliver in {wt}: (1) the change, applied and uncommitted; (2) demo.py - standalone, drives the real driver code, exits 0 on unmodified code and 1 with your change (verify both: `git diff -- cassandra > /tmp/{pid}.p; git apply -R /tmp/{pid}.p; python demo.py; git apply /tmp/{pid}.p; python demo.py` - do NOT use git stash, the stash is shared with other worktrees); (3) NOTE.txt - three lines: what you changed, what is needed to manifest, commands run with results.

Report in under 120 words: function changed, trigger, observed results.'''.format(
    wt=wt, pid=pid, title=p['title'], stmt=p['statement'], q=p['quantifier']['text'], files=', '.join(p['anchors']['files']), mech=mech,
    avoid=(' Earlier seeded changes already touched: %s - change something else.' % ', '.join(sorted(done | set(sys.argv[2:])))) if (done or sys.argv[2:]) else ''))
