#!/usr/bin/env python3
"""Regenerates /verif/MANIFEST.json from the table below (kept by hand; the checks themselves live in contracts/)."""
import json, os
HERE = os.path.dirname(os.path.dirname(os.path.abspath(__file__)))

ALL = ['C%02d' % i for i in range(1, 48)]

PROOF_NOTE = ('Trusted base: the pyvc VC generator itself (AST interpreter + z3/cvc5 encodings, cross-checked against CPython '
              'by must-fail obligations and seeded mutations), python ints as mathematical integers (exact), and the per-property '
              'assumptions listed in the evidence file (trusted_base).')

CHECKS = {
 'C23': dict(cat='proof', tech='deductive: symbolic execution of the real retry-policy methods, postconditions discharged by z3 for all integer inputs',
             text='Every clause of the property is a postcondition on the real method bodies of the four built-in retry policies, '
                  'discharged for all (unbounded) integer arguments on every path; complete for this property.', ref='DESIGN.md §4 C23'),
 'C03': dict(cat='proof', tech='deductive: byte-exact spec-layout postconditions on the real write_* primitives, _ProtocolHandler.encode_message/_write_header and every request message send_body/_write_query_params (symbolic field values and byte strings of any length, option presence enumerated per protocol version), rejection obligations; bounded parse-back of real frames by an independent strict spec parser',
             text='For each of the 8 protocol versions and every presence combination of the options, the body the real encoder writes equals the layout transcribed from the native protocol specifications for all field values (consistency, page size, timestamps, ids, query text, paging state, value bytes of any length); header length/flags/stream/opcode are a postcondition of encode_message for any body. The number of bound values / batch entries is unrolled (0..2). The literal parse-back by an independent parser is a bounded stand-in over all option combinations with fixed values.',
             ref='DESIGN.md §4 C03'),
 'C04': dict(cat='proof', tech='deductive: decoded-message == contents postconditions on the real read_* primitives, _ProtocolHandler.decode_message (every flag subset per version), ErrorMessage.recv_body + every recv_error_info/to_exception, ResultMessage.recv_body (five kinds, metadata flag combinations, read_type), EventMessage, READY/AUTHENTICATE/AUTH_CHALLENGE/AUTH_SUCCESS/SUPPORTED, on bodies built from the specification layout of symbolic contents; bounded decode of frames from an independent spec encoder',
             text='For each protocol version the body is the specification layout of symbolic numbers, byte strings and texts of any length (plus a fixed-length pass that keeps mis-parses decidable) and the real decoder must return exactly those contents and consume exactly the body. List/map/column/row counts are unrolled (0..2), type options cover all primitive codes and one level of nesting. AUTH_SUCCESS token handling is a recorded known finding; the order of the DSE continuous-paging page number relative to NO_METADATA/new_metadata_id is a stated residual.',
             ref='DESIGN.md §4 C04'),
 'C33': dict(cat='proof', tech='deductive: loop-invariant proof of SortedSet._find_insertion for lists of any length; representation-invariant + whole-view postconditions (set algebra over symbolic integer elements, operand sizes unrolled) on every public SortedSet operation; OrderedMap operations against an insertion-ordered association list with an injective key serialization',
             text='The binary search is proved for any list length. Every SortedSet operation (add/remove/pop/contains/clear/copy/len/iteration/union/intersection/difference/symmetric difference, n-ary forms, operators, in-place operators, comparisons, construction) is verified for all element values with operand sizes up to 3/2 (thorough 4/3): result strictly ascending and its element set exactly the mathematical result, operands unchanged. OrderedMap: every operation for maps of up to 3 entries with symbolic keys/values, index invariant preserved. Elements are integers standing for any totally ordered type (A-ORDER).',
             ref='DESIGN.md §4 C33'),
 'C30': dict(cat='proof', tech='deductive: postconditions on the real BoundStatement.bind/_append_unset_value/routing_key, Statement._key_parts_packed/_set_routing_key and PreparedStatement.from_message/is_routing_key_index with abstract 4-byte column codecs; all marker-state assignments, both input forms and routing-key index sets enumerated as symbolic choices; bounded native enumeration with real Int32Type columns',
             text='For 3 bind markers every assignment of {value, null, explicit UNSET, missing}, by name and positionally, per protocol version and routing-key index set, with symbolic values: same serialized values in marker order, UNSET only from v4, rejected at routing-key markers, extra values rejected. Routing key == single component or the length-prefixed composite for component lengths 0/1/3/256 (thorough 65535) with symbolic leading bytes; from_message index order for all marker/partition-key orders listed. The number of markers is fixed at 3 (stated bound).',
             ref='DESIGN.md §4 C30'),
 'C34': dict(cat='other', tech='deductive: integer postconditions on the real util.Time (acceptance range, component decomposition, time-of-day conversion, comparisons), util.Date (day count, seconds, floor division for pre-1970 instants), uuid_from_time/min_uuid_from_time/max_uuid_from_time/unix_time_from_uuid1 over a symbolic instant, node and clock sequence (field packing, version/variant bits, Cassandra signed-byte bounds) with float products as reals; BOUNDED (exhaustive in the thorough tier) calendar and string round trips and binary64 time-uuid round trips',
             text='Mixed: the integer clauses (Time accepts exactly one day of nanoseconds and decomposes/recomposes exactly; Date day counts; time-uuid timestamp, node, clock sequence, version bits and the min/max bounds in Cassandra order for every node and clock sequence) are proved for all values, with float products treated as real arithmetic (A-REAL). Date <-> yyyy-mm-dd for every day of years 1..9999 (thorough: every day; quick: every 13th), Time <-> string, and the binary64 behaviour of the uuid helpers over the whole 60-bit range are bounded stand-ins.',
             ref='DESIGN.md §4 C34', note='Trusted base: pyvc (see other entries), A-REAL for three float operations in the uuid helpers, E-DATETIME / E-UUID library contracts; the bounded part is exploration, not proof.'),
 'C27': dict(cat='proof', tech='deductive: string / regular-language postconditions (z3 strings with the cvc5 and z3 4.8 fall-backs) on the real escape_name, maybe_escape_name, is_valid_name, protect_name(s), protect_value, cql_quote and the USE statement of Connection.set_keyspace_blocking/async for every unicode string; reserved-word set inclusion; bounded round trip through an independent CQL lexer for lemma L1',
             text='For every string: the quoted forms are exactly quote + text with every quote doubled + quote; a name is left bare only if it is in [a-z][a-z0-9_]* (reads back unchanged) and is not one of Cassandra\'s reserved words (transcribed list; every one of them is in the driver\'s reserved set). That such a quoted form lexes back to the original (an induction over strings) is a bounded stand-in: exhaustive over small alphabets through the real functions and an independent lexer.',
             ref='DESIGN.md §4 C27'),
 'C39': dict(cat='proof', tech='deductive: postconditions on the real BoundStatement.bind (encryption branch) and ResultMessage.recv_results_rows (decode_val/decode_row) with the encryption policy as an abstract inverse pair whose operations require bytes; bounded probe and end-to-end round trip with the real AES256ColumnEncryptionPolicy',
             text='For every integer value and for null, for an encrypted and a plain column: bind sends encrypt(serialize(v)) (never the plaintext, null stays null, the policy is only asked for non-null values) and a ROWS body containing that ciphertext or a null cell decodes to the original value / None with decrypt only ever handed bytes. The AES policy itself is an assumed contract (E-AES) probed on the real class (bounded); the compiled decoder is outside this family.',
             ref='DESIGN.md §4 C39'),
 'C37': dict(cat='other', tech='contract postconditions (size == bound keys == rendered placeholders, consecutive ids, operand-role binding, per-clause ownership, disjoint ranges in batches) on the real cqlengine clause / statement classes and BatchQuery.execute, executed by the AST interpreter on opaque value tokens for every enumerated shape',
             text='Bounded in shape, parametric in the bound values: every clause class in every operation/previous-value shape with collections of 0..3 opaque elements, statements built from up to 2 where / 3 assignment / 1 conditional / 2 delete clauses, batches of up to 3 statements, starting ids 0 and 7. The obligations are evaluated on concrete runs of the real methods (no solver reasoning is needed: strings and counters are concrete), so this is exhaustive exploration of the listed shapes, not a proof over all shapes.',
             ref='DESIGN.md §4 C37', note='Trusted base: the pyvc AST interpreter executing the real methods; parametricity in the bound values (tokens are only stored, compared and measured); shapes are enumerated.'),
 'C35': dict(cat='other', tech='cell-semantics postconditions (rendered operations with their bound operands applied to the previous value give the new value) on the real cqlengine Set/List/Map/CounterUpdateClause, MapDeleteClause and BaseValueManager for every (previous, new) pair over small universes, executed by the AST interpreter; BOUNDED random model-operation sequences through the real DMLQuery.save/update against an in-memory table with the same semantics',
             text='Bounded: clause level is exhaustive over sets on 3 elements, lists of length <= 3 (quick: over 2 elements plus 3 lists over 3), maps over 2 keys x 2 values, counters -3..3 (parametric in element values); flow level is 4 000 (thorough 60 000) random create + save/update sequences on one model with partition + clustering key, text, static, set, list, map columns. Server-side semantics beyond one cell are outside the model.',
             ref='DESIGN.md §4 C35', note='Trusted base: the cell-level CQL semantics function (spec), the pyvc AST interpreter executing the real methods, parametricity in element values; exploration, not proof.'),
 'C36': dict(cat='other', tech='deductive: integer postconditions on the real cqlengine DateTime.to_database over a symbolic instant and symbolic zone offsets at the value and at the epoch (datetime / tzinfo / timedelta as stubbed library contracts), Date.to_database, Integer/BigInt/VarInt.to_database; BOUNDED comparison of 22 column types with the core cqltypes serializers',
             text='Mixed: the DateTime clause of the property (exact millisecond instant, naive or aware, independent of how the zone offset varies) and the Date / integer columns are proved for all values; every other column type (floats, decimal, text, blob, inet, uuid, time, collections, tuples) is only compared with the real core serializers on boundary and random values (8 000 quick / 100 000 thorough) - bounded, not proved.',
             ref='DESIGN.md §4 C36', note='Trusted base: pyvc, the stubbed datetime/tzinfo/timedelta contract (E-DATETIME) and the oracle "whole milliseconds toward zero" taken from the core serializer (C02); the bounded part is exploration.'),
 'C38': dict(cat='other', tech='contract postconditions on the mechanically extracted key-serializer statement of ModelMetaClass.__new__, BaseCQLStatement/AssignmentStatement.partition_key_values and cqlengine.query._execute_statement, executed by the AST interpreter over every enumerated key shape with abstract column codecs; BOUNDED comparison of real models\' routing keys with Cassandra\'s composite encoding of the core-serialized key values',
             text='Bounded in shape: every declaration order of up to 4 partition/clustering key columns (quick: up to 3 plus three 4-column orders), filters in 6 orders with 3 operators on 4 statement kinds, 4 completeness cases of _execute_statement; codecs abstract (packing is C30). The metaclass as a whole is outside the subset: only its routing-key statement is extracted. Real models with 6 key-capable column types and random values are a bounded stand-in.',
             ref='DESIGN.md §4 C38', note='Trusted base: the extraction of one statement of ModelMetaClass.__new__ by source pattern (stated in the evidence), the pyvc interpreter, C30 for the packing; exploration, not proof.'),
 'C31': dict(cat='proof', tech='deductive: lock-invariant proof of MonotonicTimestampGenerator.__call__ for arbitrary clock and history + frame scan',
             text='Lock invariant (all returned timestamps <= last) proved preserved by __call__ for an arbitrary prior state and clock reading; '
                  'strict monotonicity across threads follows for lock-respecting schedules; unprotected reads/writes of `last` fail an obligation.',
             ref='DESIGN.md §4 C31'),
 'C41': dict(cat='proof', tech='deductive: postconditions on get_lower_supported/protocol_downgrade, inductive invariant + variant on the _try_connect negotiation loop, flag-ordering obligation on process_msg',
             text='Step-down-only and termination are an inductive loop invariant and a strictly decreasing variant on the real negotiation loop with the '
                  'server modelled as arbitrary; callee contracts are verified separately on the real bodies.', ref='DESIGN.md §4 C41'),
 'C24': dict(cat='proof', tech='deductive: postconditions on new_schedule/_add_jitter/_ReconnectionHandler.run; generator loop cut at an inductive invariant (one in-bounds item per attempt, exit exactly at max_attempts)',
             text='Counts and bounds of both schedules are postconditions/loop invariants on the real generator code for all real delays and all attempt limits incl. 0 and None (no bound on the number of items); delays are reals (A-REAL).',
             ref='DESIGN.md §4 C24'),
 'C02': dict(cat='proof', tech='deductive: serialize(v) == Cassandra-serializer spec bytes as postconditions (fixed-width ints, date, time, zig-zag, vints, uvint, varint with an inductive loop invariant for all integers); bounded stand-ins for decimal and the out-of-range-raises clause of vints',
             text='Byte-exactness is a postcondition against spec functions transcribed from Cassandra\'s serializers, discharged for all values (varint: unbounded integers via loop invariant + assumed monotonicity lemma of 2^k + one checked product lemma proved in the empty context). Decimal and out-of-range vint values are bounded stand-ins (labelled in the evidence, not counted as proved).',
             ref='DESIGN.md §4 C02'),
 'C01': dict(cat='proof', tech='deductive: deserialize(serialize(v)) == norm(v) as postconditions on the real codec pairs; type constructors proved parametrically in an uninterpreted element codec (sizes unrolled to 3); bounded stand-ins for timestamp/decimal/inet and nested real types',
             text='Scalars are proved for all values and all protocol versions; list/set/map/tuple/UDT/vector are proved for any element codec satisfying the codec contract, all versions, None elements and empty collections, with collection size/arity unrolled to 3 (stated bound); nesting follows by structural induction over those obligations. Library-backed types (timestamp, decimal, inet) are bounded stand-ins, labelled.',
             ref='DESIGN.md §4 C01'),
 'C08': dict(cat='proof', tech='deductive: bit-vector (low-64) symbolic execution of the real _murmur3/rotl64/fmix against MurmurHash.hash3_x64_128 transcribed from Cassandra, loop invariant over an uninterpreted fold of the round function; integer proofs for truncate_int64, token normalisation and the MD5 token; bounded end-to-end stand-in incl. body_and_tail',
             text='murmur3 is proved equal to Cassandra\'s hash for any number of blocks (inductive invariant) and every tail length (unrolled, complete), in low-64 mode (A-BITS); MD5/RandomPartitioner token proved over an arbitrary digest. struct-based block splitting (body_and_tail) is assumed and probed by a bounded end-to-end stand-in.',
             ref='DESIGN.md §4 C08'),
 'C06': dict(cat='proof', tech='deductive: v5 segment header codec over full-domain bit-vectors (byte-exact + round trip + single-bit corruption), compute_crc24 by loop invariant against Crc.crc24, segment encode/decode and connection buffer steps with callee contracts; bounded stand-in for payload CRC32 corruption',
             text='Header encode/decode, CRC24, segment_length, segment round trip (both codecs, compressed and left-uncompressed), one step of the checksummed read path and the buffer resets are postconditions discharged for all field values / all buffered byte strings. CRC32 and the compressor are assumed (E-CRC32 probed by a bounded stand-in); chunking is verified parametrically in the chunk-size constant with bounded unrolling.',
             ref='DESIGN.md §4 C06'),
 'C05': dict(cat='proof', tech='deductive: representation invariant + step postcondition on one iteration of the real process_io_buffer loop for arbitrary buffered bytes; handle_pushed/process_msg dispatch postconditions',
             text='For any buffered byte string, an iteration either delivers exactly the first complete frame (exact header fields and body, exactly its bytes removed) or changes nothing; chunking independence follows by induction over reads from the representation invariant (meta-argument).',
             ref='DESIGN.md §4 C05'),
 'C19': dict(cat='proof', tech='deductive: typestate contracts with a ghost log of sent messages on the real ResponseFuture._set_result (UNPREPARED branch), _reprepare and _execute_after_prepare, callee contracts for pool/connection/executor',
             text='Each of the three functions that implement re-preparation is verified against its contract for all protocol versions, keyspace combinations, pool states and response kinds; the response-sequence (history) clause is the composition of these contracts (meta-argument, A-EXEC for the executor hop).',
             ref='DESIGN.md §4 C19'),
 'C16': dict(cat='proof', tech='deductive: postconditions over a ghost call log on the real ResponseFuture._set_result error branches / _handle_retry_decision / _retry with the retry policy as an arbitrary decision oracle; speculative gating through Session._create_response_future',
             text='For each of the eight error kinds the policy is consulted exactly once with retry_num == retries so far and the failure description, and each of the four decisions (with any consistency level or None) has exactly its effect; the retry continuation itself is C17\'s _retry_task contract (A-EXEC).',
             ref='DESIGN.md §4 C16'),
 'C17': dict(cat='proof', tech='deductive: postconditions over a ghost log on the real send_request/_query/_retry_task/_make_query_plan/start_fetching_next_page with callee contracts for pools and connections; plans of up to 3 hosts x 6 pool states enumerated',
             text='Plan order, single attempt per host, recorded skip reasons and NoHostAvailable only after exhaustion are postconditions checked for every plan of up to 3 hosts and every combination of per-host pool state (unrolled - stated bound; the per-host step does not depend on the position).',
             ref='DESIGN.md §4 C17'),
 'C46': dict(cat='proof', tech='deductive: symbolic option lattice through the real Session._create_response_future, message constructors and BoundStatement.__init__',
             text='Every option (consistency, serial consistency, retry policy, timeout, fetch size, row factory, load balancer, timestamp, keyspace, speculative plan) is checked against first_not_none(statement, profile | session) with all set/unset combinations symbolic, both configuration modes, three statement kinds, all protocol versions; wire encoding of those fields is C03.',
             ref='DESIGN.md §4 C46'),
 'C14': dict(cat='proof', tech='deductive: typestate contracts with a ghost delivery log on the real ResponseFuture completion functions, callback registration, result(), every branch of _set_result (progress), _on_speculative_execute and start_fetching_next_page; lock-discipline obligations',
             text='Exactly-once delivery is the typestate contract of the two completion functions (proved for any number of registered callbacks up to 2 of each kind, unrolled) plus one-way-forward progress for every response kind. The typestate precondition is NOT established by the callers: recorded as known finding KF-C14-second-completion (a second outcome is delivered again).',
             ref='DESIGN.md §4 C14'),
 'C15': dict(cat='proof', tech='deductive: postconditions "completed or re-armed within the deadline" with a ghost clock on the real _start_timer/_on_timeout/_on_speculative_execute/start_fetching_next_page/send_request',
             text='The TIMER invariant (finite timeout and not completed => a live timer with deadline within the budget) is established and preserved by each timer-handling method for arbitrary clock readings; boundedness follows by a ranking argument (meta-argument). Timer service accuracy is assumed (E-TIMER).',
             ref='DESIGN.md §4 C15'),
 'C09': dict(cat='proof', tech='deductive: lock-invariant (INV-ID) contracts on get_request_id, HostConnection.borrow_connection/return_connection, Connection.process_msg, ResponseFuture._on_timeout (orphaning), the id-pool set-up slice of Connection.__init__, stream tracking in _query; frame scans of in_flight/request_ids/orphaned_request_ids',
             text='Each operation on the stream-id pool is verified for an arbitrary connection state satisfying INV-ID (symbolic free list, registered and orphaned ids): ids handed out are free, unique, within the protocol maximum; responses reach only the handler registered for their stream; orphaning keeps in_flight. Interleavings are covered by the lock discipline + A-AFFINITY (induction over operations is a meta-argument).',
             ref='DESIGN.md §4 C09'),
 'C10': dict(cat='proof', tech='deductive: ghost invocation counters on the real Connection.defunct/error_all_requests/error_all_cp_sessions/send_msg/process_msg (decode-error path); interference of defunct() inside send_msg modelled at its unlocked read',
             text='Exactly-once erroring of every outstanding handler (also when handlers raise, also on the helper-thread path), idempotence of defunct, refusal of later sends and no second delivery are postconditions for up to 3 (and 101) outstanding handlers. The check-then-register race of send_msg is a recorded known finding (KF-C10-send_msg-races-with-defunct).',
             ref='DESIGN.md §4 C10'),
 'C12': dict(cat='proof', tech='deductive: ghost OPENED/CLOSED accounting and typestate postconditions on the real HostConnection borrow/return/_replace/shutdown, HostConnectionPool._wait_for_conn and Connection.set_keyspace_async; interference of shutdown() inside _replace modelled at the blocking factory call',
             text='Shutdown closes every connection the pool owns (current and trashed), borrows from a shut-down pool fail, returns decrement exactly once and never below zero (given a prior borrow), keyspace switching takes its slot before calling back; capacity/freshness of borrowed ids is C09. The replace-vs-shutdown leak is a recorded known finding.',
             ref='DESIGN.md §4 C12'),
 'C13': dict(cat='proof', tech='deductive: pre@close obligations (close only while in_flight == |orphans|, decided and executed under connection.lock) on the real HostConnection._replace / return_connection / borrow_connection',
             text='For every in-flight count and orphan count of the old connection: it is closed iff only orphaned streams remain, under its lock; otherwise trashed and closed by the return that leaves only orphans (also an orphaning return); borrowers move to the fresh connection.',
             ref='DESIGN.md §4 C13'),
 'C20': dict(cat='proof', tech='deductive: ghost callback counters and lock-discipline obligations on the real Session._set_keyspace_for_all_pools, HostConnection/HostConnectionPool._set_keyspace_for_all_conns, Connection.set_keyspace_async, ResponseFuture._set_keyspace_completed, pool constructors',
             text='Exactly-once completion with the union of all errors is proved for up to 3 pools / 2 legacy connections under every completion order and outcome combination (enumerated); the keyspace is remembered for connections opened later, including pools that had no connection during the switch.',
             ref='DESIGN.md §4 C20'),
 'C43': dict(cat='proof', tech='deductive: postconditions on the real ControlConnection._get_schema_mismatches (version sets enumerated symbolically), wait_for_schema_agreement (symbolic clock, bounded polls), refresh_schema_and_set_result and the SCHEMA_CHANGE branch of ResponseFuture._set_result',
             text='Agreement is reported iff exactly one schema version is seen among the control host and the live known peers; the wait loop returns True only on agreement and False only after the deadline; the future flag is False until the wait finishes. Poll count is bounded at 3 (loop unrolled).',
             ref='DESIGN.md §4 C43'),
 'C42': dict(cat='proof', tech='deductive: postconditions over a ghost notification log on the real ControlConnection._refresh_node_list_and_token_map, _is_valid_peer, _update_location_info, Cluster.add_host/remove_host, Metadata host-table methods; row kinds and prior host sets enumerated as symbolic choices',
             text='Every single refresh is verified from an arbitrary prior host set for snapshots of up to 2 (thorough: 3) peer rows of all 8 row kinds; sequences of snapshots follow by composition. The token-change-without-membership-change clause is a recorded known finding.',
             ref='DESIGN.md §4 C42'),
 'C44': dict(cat='proof', tech='deductive: postconditions over a ghost log on the real ConnectionHeartbeat.run (one round, loops unrolled over <=2/3 connections), HeartbeatFuture.__init__/wait/_options_callback, Connection.is_idle/reset_idle with symbolic in_flight counts and clock; frame scan of msg_received',
             text='One heartbeat round is verified for every combination of 9 connection states over up to 2 owners with arbitrary in_flight/max ids and clock readings; Event/clock and send_msg/defunct are assumed contracts. Interval scheduling between rounds is out of scope.',
             ref='DESIGN.md §4 C44'),
 'C45': dict(cat='proof', tech='deductive: ghost OPENED/CLOSED postconditions with shutdown() injected at the blocking calls of every opener, on the real Cluster.shutdown/connect/on_*, Session.shutdown/submit/add_or_renew_pool, ControlConnection.shutdown/_reconnect/_try_connect/_set_new_connection, HostConnection.shutdown/_replace, HostConnectionPool.shutdown/_add_conn_if_under_max, _Scheduler, ResponseFuture.send_request',
             text='Per-layer contracts: each shutdown closes what the layer owns exactly once and is idempotent; each opener closes its new connection/pool when shutdown interleaved; nothing is scheduled, submitted or connected after the flag; requests on a shut-down session complete with NoHostAvailable. Global quiescence is the conjunction (meta-argument); interference points are the blocking calls only.',
             ref='DESIGN.md §4 C45'),
 'C47': dict(cat='proof', tech='deductive: typestate postconditions (ghost phase) on the real Connection handshake handlers _send_options_message/_handle_options_response/_send_startup_message/_handle_startup_response/_handle_auth_response/_enable_compression/_enable_checksumming/defunct/factory, reply sequences and configurations enumerated as symbolic choices',
             text='Every reply sequence (up to 6 replies; the challenge loop returns to a verified state) x authenticator kind x protocol version is checked against the protocol state machine; compression negotiation over all setting/local/remote/version combinations; factory outcome per handshake state. Wire encoding of the handshake messages is C03/C05.',
             ref='DESIGN.md §4 C47'),
 'C18': dict(cat='proof', tech='deductive: postconditions over a ghost page-request log on the real ResultSet.__iter__/next/fetch_next_page/_fetch_all/_enter_list_mode/__getitem__/all and ResponseFuture.result/start_fetching_next_page/_set_result(ROWS)/_set_final_exception, page shapes enumerated as symbolic choices',
             text='All page-size sequences of up to 4 (thorough 5) pages with 0..2 opaque rows, for iteration, list materialisation, manual fetching and a failing page request. The recursion of ResultSet.next is unrolled (bounded dimension); continuous paging is out of scope.',
             ref='DESIGN.md §4 C18'),
 'C32': dict(cat='proof', tech='deductive: postconditions over ghost started/finished sets on the real execute_concurrent / execute_concurrent_async and _ConcurrentExecutor / ListResults / GenResults / FutureResults methods, explored under every completion schedule (interference at the points where the condition lock is free); Condition, Future and Session.execute_async are assumed contracts',
             text='All schedules for up to 3 statements (thorough 4) x 5 behaviours x concurrency x fail-fast are enumerated: bounded in the number of statements, exhaustive in interleavings at lock-free points. Hangs (a wait nobody notifies) are detected. The generator variant relies on A-GEN (generator bodies run eagerly, exceptions surface at the consumer).',
             ref='DESIGN.md §4 C32'),
 'C25': dict(cat='proof', tech='deductive: typestate postconditions over a ghost notification log and the set of started/cancelled reconnection handlers on the real Cluster.on_up/_on_up_future_completed/on_down/_start_reconnector/_cleanup_failed_on_up_handling/on_remove/signal_connection_failure and pool._ReconnectionHandler.start/run, _HostReconnectionHandler, Host.get_and_set_reconnection_handler',
             text='Each event handler is verified from an arbitrary host state satisfying the series invariant (at most one started, uncancelled handler = the registered one) and re-establishes it; event histories follow by composition. Sessions/policies/listeners are notification sinks; up to 2 sessions with every pool outcome and completion order.',
             ref='DESIGN.md §4 C25'),
 'C21': dict(cat='proof', tech='deductive: representation invariant and abstract-view (LIVE set) postconditions on the real RoundRobinPolicy, DCAwareRoundRobinPolicy, WhiteListRoundRobinPolicy, HostFilterPolicy, DefaultLoadBalancingPolicy methods, checked from every policy state over a small host universe with interference injected at lock acquisition',
             text='Every operation is verified from every state over a universe of 5 hosts / 3 datacenter keys (thorough 6/4) for all constructor parameters; event sequences follow by composition over the LIVE view. itertools functions run natively (E-ITER); random start positions enumerated.',
             ref='DESIGN.md §4 C21'),
 'C22': dict(cat='proof', tech='deductive: postcondition plan == [live local replicas in replica order] ++ [rest of the child plan] on the real TokenAwarePolicy.make_query_plan with the child policy and the replica lookup as arbitrary oracles; keyspace-update contract on Metadata._update_keyspace/TokenMap.rebuild_keyspace',
             text='All replica lists (<=2, thorough 3, distinct hosts), child plans, per-host up states and distances over a 4-host universe are enumerated; hosts enter only through equality/is_up/distance. Replica sets themselves are C26.',
             ref='DESIGN.md §4 C22'),
 'C26': dict(cat='other', tech='deductive for SimpleStrategy.make_token_replica_map (symbolic ownership and RF, rings of <=4/5 tokens), TokenMap.get_replicas, Metadata.rebuild_token_map/_update_keyspace; BOUNDED exhaustive native comparison with the transcribed Cassandra 4.x algorithm for NetworkTopologyStrategy.make_token_replica_map',
             text='Mixed: SimpleStrategy and the lookup/rebuild functions are verified by contract; NetworkTopologyStrategy (nested index-juggling loops) is only checked exhaustively on small rings (<=3/4 hosts x 2 DCs x 2/3 racks x <=2 tokens, every interleaving, RF 0..3 per DC) plus random larger rings - bounded, not proved.',
             ref='DESIGN.md §4 C26'),
}

NA_REASON = {}

def main():
    m = {
        'version': 1,
        'setup_cmd': "python3-vt -c \"import z3, cvc5; print('tools ok', z3.get_version_string())\" && test -x /usr/bin/cvc5",
        'hooks': {'guard': 'DATASTAX_PYTHON_DRIVER_VERIF',
                  'enable': 'no hooks: contracts are sidecars under /verif/contracts and the engine reads the source of /repo (VERIF_REPO) directly on every run',
                  'baseline_off_cmd': 'cd /repo && /venv/bin/python -m pytest -ra -q -p no:cacheprovider --timeout=900 --continue-on-collection-errors',
                  'source_commits': [], 'add_only': True},
        'engines': [{'name': 'pyvc', 'path': 'pyvc/', 'serves_properties': sorted(CHECKS),
                     'kind_free_text': 'own verification-condition generator for Python: AST symbolic executor over the real source of /repo with sidecar contracts '
                                       '(contracts/), loop invariants, lock invariants, frame scans; obligations discharged by a portfolio that stops at the first definite answer: z3 5.1 in process, then the cvc5 1.0.3 CLI on the SMT-LIB export together with z3 re-run in a fresh context under other seeds (DESIGN.md 2.8); '
                                       'native replay of counter-models under /venv/bin/python'}],
        'checks': [], 'not_applicable': [],
        'notes': 'Exit codes of ./check: 0 held, 1 violation (VIOLATION line), 2 undecided, 3 checker error. See DESIGN.md.',
    }
    for pid in ALL:
        c = CHECKS.get(pid)
        if c is None:
            m['not_applicable'].append({'property_id': pid, 'reason': NA_REASON.get(pid, 'check not built yet (build in progress; see DESIGN.md §7)')})
            continue
        m['checks'].append({
            'property_id': pid,
            'quick_cmd': './check %s --tier quick' % pid,
            'thorough_cmd': './check %s --tier thorough' % pid,
            'evidence_file': 'evidence/%s.json' % pid,
            'replay_cmd_template': './check %s --replay {path}' % pid,
            'engine': 'pyvc',
            'level_claimed': {'category': c['cat'], 'text': c['text'], 'design_ref': c['ref']},
            'level_note': c.get('note', PROOF_NOTE),
            'technique': c['tech'],
        })
    json.dump(m, open(os.path.join(HERE, 'MANIFEST.json'), 'w'), indent=1)

if __name__ == '__main__':
    main()
