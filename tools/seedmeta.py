#!/usr/bin/env python3
"""seedmeta.py <seed-id> <needs_to_manifest> <detected_by>  - fill the two descriptive fields of seeded/<id>/meta.json"""
import json, sys
p = '/verif/seeded/%s/meta.json' % sys.argv[1]
m = json.load(open(p))
m['needs_to_manifest'], m['detected_by'] = sys.argv[2], sys.argv[3]
json.dump(m, open(p, 'w'), indent=1)
