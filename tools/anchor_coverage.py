#!/usr/bin/env python3
"""anchor_coverage.py : for every property, the mechanisms its anchors name and which of them appear among the functions under contract in its evidence file."""
import json, os, re, sys
HERE = os.path.dirname(os.path.dirname(os.path.abspath(__file__)))
for l in open(os.path.join(HERE, 'properties.jsonl')):
    p = json.loads(l)
    ev = json.load(open(os.path.join(HERE, 'evidence', p['id'] + '.json')))
    text = json.dumps(ev)
    miss = []
    for m in p['anchors'].get('mechanism', []):
        names = re.findall(r'[A-Za-z_][A-Za-z_0-9]*(?:\.[A-Za-z_][A-Za-z_0-9]*)*', m['name'])
        names = [n for n in names if ('.' in n or '_' in n or n[0].isupper() or len(n) > 6) and n not in ('Cassandra', 'Java', 'BigInteger', 'equivalent', 'handling', 'checks', 'shutdown')]
        hit = [n for n in names if n.split('.')[-1] in text]
        if not hit:
            miss.append(m['name'] + ' @ ' + m['where'])
    if miss:
        print(p['id'], '; '.join(miss))
