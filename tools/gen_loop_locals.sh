#!/bin/sh
# gen_loop_locals.sh : (re)generate contracts/loop_locals.json - the binding order of the locals of every function that has a loop contract, as of the current /repo.
# Run after a contract gains a vc.loop or after an accepted change of /repo renamed locals; serial (the recorder rewrites one file).
HERE="$(cd "$(dirname "$0")/.." && pwd)"
rm -f "$HERE/contracts/loop_locals.json"
for p in $(grep -l "vc.loop(" "$HERE"/contracts/*.py | xargs -n1 basename | sed 's/_.*//' | tr a-z A-Z | sort -u) C01 C02; do
  PYVC_RECORD_LOCALS="$HERE/contracts/loop_locals.json" PYVC_JOBS=1 "$HERE/check" $p > /dev/null 2>&1
done
python3 -c "import json,sys; d=json.load(open(sys.argv[1])); print(len(d), 'functions:', ', '.join(sorted(d)))" "$HERE/contracts/loop_locals.json"
